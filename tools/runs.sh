#!/bin/bash
# usage: tools/runs.sh ID [tier] — run a check and print a compact summary
id=$1; tier=${2:-quick}
/usr/bin/time -f "%es wall" ./vf check $id --tier $tier > .build/$id.out 2> .build/$id.err; echo "$id exit=$?"; tail -3 .build/$id.err; head -3 .build/$id.out; python3 - $id <<'EOP'
import json,sys,glob
for fn in sorted(glob.glob(f'/verif/.build/symk-{sys.argv[1]}*.json')):
    d=json.load(open(fn))
    c=d['coverage']; print(fn.split('/')[-1], 'paths',c['states'],'jobs',c['jobs_total'],'fin',c['jobs_finished'],'notrun',c['jobs_not_run_budget_count'], c['outcome_classes'], 'solver_s',c['solver_s'], c['jobs_incomplete'][:4])
    print('  slowest', [ (j['job'], j['wall_s'], j['paths']) for j in c['slowest_jobs'][:4]])
    seen=set()
    for v in d['violations']:
        k=v['job'].split()[0]+json.dumps(v['native_outcome'])[:60]
        if k in seen: continue
        seen.add(k)
        if len(seen)>4: break
        print('  VIOL', v['job'], '|', v['what'], '\n     in:', json.dumps(v['inputs'])[:700], '\n     out:', json.dumps(v['native_outcome'])[:400])
    for m in d['mismatches'][:2]: print('  MISMATCH', json.dumps(m)[:1500])
    for e in d['engine_errors'][:3]: print('  ENGERR', e[:600])
EOP
