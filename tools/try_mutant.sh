#!/bin/bash
# usage: tools/try_mutant.sh <patch.diff> <ID> [tier]   — apply a seeded change to /repo, run the check, undo it
set -u
patch="$1"; id="$2"; tier="${3:-quick}"
cd /repo || exit 2
if ! git diff --quiet; then echo "try_mutant: /repo has uncommitted changes" >&2; exit 2; fi
if ! git apply --check "$patch" 2>/dev/null; then echo "try_mutant: patch does not apply: $patch" >&2; exit 3; fi
git apply "$patch"
cd /verif
./vf check "$id" --tier "$tier" > /verif/.build/mut-$id.out 2> /verif/.build/mut-$id.err
rc=$?
git -C /repo checkout -- .
echo "mutant=$patch check=$id tier=$tier exit=$rc"
grep -E "^(VIOLATION|KNOWN-FINDING)" /verif/.build/mut-$id.out | head -3
exit $rc
