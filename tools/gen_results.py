#!/usr/bin/env python3
"""seeded/RESULTS.md from the matrix runs (.build/matrix*.tsv; later files override earlier rows)."""
import json, glob, os
rows = {}
for fn in ["/verif/.build/matrix.tsv", "/verif/.build/matrix_r2.tsv", "/verif/.build/matrix_r3.tsv", "/verif/.build/matrix_r4.tsv", "/verif/.build/matrix_r5a.tsv", "/verif/.build/matrix_r5b.tsv", "/verif/.build/matrix_r5c.tsv", "/verif/.build/matrix_r6a.tsv", "/verif/.build/matrix_r6b.tsv", "/verif/.build/matrix_r7a.tsv", "/verif/.build/matrix_r8a.tsv", "/verif/.build/matrix_r9a.tsv", "/verif/.build/matrix_r10a.tsv", "/verif/.build/matrix_r10b.tsv", "/verif/.build/matrix_r10c.tsv"]:
    if not os.path.exists(fn):
        continue
    for l in open(fn):
        if l.startswith("MATRIX"):
            continue
        r = l.rstrip("\n").split("\t")
        rows[r[0]] = r
out = ["# Seeded changes vs. the check of the property they break", "",
       "Produced by `tools/matrix.sh` on the tree after the five `fix:` commits and the hook commit (quick tier, `VERIF_SEED` unset).",
       "Each row: the change, the check that was run, its exit code (1 = `VIOLATION` reported, 0 = missed, 2 = machinery failure), wall time, first violating job.",
       "Rows that were first missed and are caught after an improvement are listed with the final result; the misses and what was changed are in DESIGN.md section 7.", "",
       "| seeded change | check | exit | wall | changed | needs to manifest | first violating job |", "|---|---|---|---|---|---|---|"]
caught = 0
for name in sorted(rows):
    r = rows[name]
    pid, rc, wall = r[1], r[2], r[3]
    job = r[4] if len(r) > 4 else ""
    if not job.strip() and rc == "1" and pid == "C07":
        job = "Kani proof harness (Engine K)"
    try:
        j = json.loads(job.strip())
        job = j.get("job", j.get("harness", ""))
    except Exception:
        job = job.strip()[:80]
    m = json.load(open(f"/verif/seeded/{name}/meta.json"))
    caught += rc == "1"
    note = f" (written for {name.split('-')[0]}; {m['violates']})" if m.get("checked_with") else ""
    if m.get("missed_because"):
        note += f" — NOT CAUGHT: {m['missed_because']}"
    out.append(f"| {name} | {pid} | {rc} | {wall} | {m.get('changed','')}{note} | {m.get('needs_to_manifest','')} | {job} |")
out += ["", f"Caught: {caught} of {len(rows)}."]
open("/verif/seeded/RESULTS.md", "w").write("\n".join(out) + "\n")
print(caught, len(rows), [n for n in rows if rows[n][2] != "1"])
