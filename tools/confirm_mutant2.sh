#!/bin/bash
# usage: tools/confirm_mutant.sh <ID> <m1|m2>
# Confirms, in the scratch worktree /tmp/mut/<ID>, that the seeded change compiles, passes the existing
# suite, that its demonstration fails with it and passes without it; then stores it under /verif/seeded/.
set -u
id="$1"; m="$2"; wt=${MUTBASE:-/tmp/mut}/$id; lid=$(echo $id | tr A-Z a-z)
demo=demo_${lid}_${m}
out=/verif/seeded/${id}-${MUTTAG:-}${m}
export CARGO_NET_OFFLINE=true
cd $wt || exit 2
git checkout -q -- src
mkdir -p ${MUTBASE:-/tmp/mut}/hold_$id && mv tests/demo_*.rs ${MUTBASE:-/tmp/mut}/hold_$id/ 2>/dev/null
cp ${MUTBASE:-/tmp/mut}/hold_$id/$demo.rs tests/ || { echo "no demo"; exit 2; }
# 1. demo passes on unchanged source
cargo test --offline -j 6 --test $demo > ${MUTBASE:-/tmp/mut}/$id.$m.demo_clean.log 2>&1; clean_rc=$?
# 2. with patch: suite passes, demo fails
git apply $wt/$m.diff || { echo "patch does not apply"; mv ${MUTBASE:-/tmp/mut}/hold_$id/*.rs tests/; exit 2; }
mv tests/$demo.rs ${MUTBASE:-/tmp/mut}/hold_$id/
cargo test --offline -j 6 --workspace --no-fail-fast > ${MUTBASE:-/tmp/mut}/$id.$m.suite.log 2>&1; suite_rc=$?
cp ${MUTBASE:-/tmp/mut}/hold_$id/$demo.rs tests/
cargo test --offline -j 6 --test $demo > ${MUTBASE:-/tmp/mut}/$id.$m.demo_mut.log 2>&1; mut_rc=$?
git checkout -q -- src
mv ${MUTBASE:-/tmp/mut}/hold_$id/*.rs tests/ 2>/dev/null; rmdir ${MUTBASE:-/tmp/mut}/hold_$id 2>/dev/null
passed=$(grep -E "^test result: ok" ${MUTBASE:-/tmp/mut}/$id.$m.suite.log | sed -E 's/.* ([0-9]+) passed.*/\1/' | paste -sd+ | bc)
echo "$id $m: demo_clean_rc=$clean_rc suite_rc=$suite_rc (passed=$passed) demo_mut_rc=$mut_rc"
if [ $clean_rc -eq 0 ] && [ $suite_rc -eq 0 ] && [ $mut_rc -ne 0 ]; then
  mkdir -p $out && cp $wt/$m.diff $out/patch.diff && cp $wt/tests/$demo.rs $out/
  cat > $out/meta.json <<EOM
{
 "property": "$id",
 "patch": "patch.diff",
 "demonstration": "$demo.rs",
 "confirmed": {
  "worktree": "scratch git worktree of /repo at the pinned commit",
  "demo_on_unchanged_source": "cargo test --offline --test $demo -> pass (exit $clean_rc)",
  "suite_with_change": "cargo test --offline --workspace --no-fail-fast -> pass (exit $suite_rc, $passed tests incl. doc-tests)",
  "demo_with_change": "cargo test --offline --test $demo -> FAIL (exit $mut_rc)"
 }
}
EOM
  echo "  stored $out"
else
  echo "  NOT CONFIRMED"
fi
