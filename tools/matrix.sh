#!/bin/bash
# run every seeded change against the check of the property it breaks; writes /verif/.build/matrix.tsv
out=/verif/.build/${MATRIX_OUT:-matrix.tsv}; : > $out
for d in ${MATRIX_DIR:-/verif/seeded}/${MATRIX_GLOB:-C*-m*}; do
  name=$(basename $d); pid=${name%%-*}
  patch=$d/patch.diff; [ -f $d/patch_rebased.diff ] && patch=$d/patch_rebased.diff
  s=$(date +%s)
  res=$(tools/try_mutant.sh $patch $pid 2>&1 | head -1)
  rc=$(echo "$res" | sed -E 's/.*exit=([0-9]+).*/\1/')
  e=$(date +%s)
  job=$(grep -m1 '"job"' /verif/.build/mut-$pid.err | cut -c1-200)
  printf "%s\t%s\t%s\t%ss\t%s\n" "$name" "$pid" "$rc" "$((e-s))" "$job" >> $out
done
echo MATRIX-DONE >> $out
