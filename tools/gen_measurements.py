#!/usr/bin/env python3
"""Rewrites the measurement table of DESIGN.md section 2 from the evidence files of the last quick runs."""
import json, re
TITLE = {
 "C01": "compose ≅ pushout (strict box incl. mismatched boundaries, lax compose)", "C02": "strict box + lax pairs/triples",
 "C03": "(budgeted)", "C04": "strict + lax", "C05": "raw constructors + subsets of the lax / functor / optic jobs", "C06": "", "C07": "Engine S part; Engine K part",
 "C08": "", "C09": "(lax tier)", "C10": "(lax tier)", "C11": "(lax tier)", "C12": "strict + lax + native subset", "C13": "(lax tier)",
 "C14": "strict + lax + derivative (budgeted)", "C15": "incl. three-operation profiles", "C16": "(16-bit opaque values)", "C17": "both arithmetic profiles",
 "C18": "", "C19": "(lax tier)", "C20": "adversarial (budgeted)",
}
rows = ["| check | quick-box jobs finished / total | thorough-box sample finished / offered | paths | solver decisions | wall |", "|---|---|---|---|---|---|"]
for i in range(1, 21):
    pid = f"C{i:02d}"
    e = json.load(open(f"/verif/evidence/{pid}.json"))
    c = e["coverage"]
    s = c.get("thorough_box_sample") or {}
    off, fin = s.get("offered", 0), s.get("finished", 0)
    total = c.get("jobs_total", 0)
    done = c.get("jobs_finished", 0)
    extra = ""
    k = c.get("kani")
    if k:
        extra = f"; Kani {k.get('harnesses_verified')} / {k.get('harnesses_total')} harnesses"
    rows.append(f"| {pid} {TITLE[pid]} | {done:,} / {total:,}{extra} | {fin:,} / {off:,} | {c.get('states', 0):,} | {c.get('solver_decided_points', 0):,} | {e['wall_s']:.0f} s |".replace(",", " ").replace("boundaries  lax", "boundaries, lax"))
p = "/verif/DESIGN.md"
s = open(p).read()
a = s.index("| check | ")
b = s.index("\n\n", a)
s = s[:a] + "\n".join(rows) + s[b:]
open(p, "w").write(s)
print("\n".join(rows))
