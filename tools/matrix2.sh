#!/bin/bash
# usage: MATRIX_OUT=file.tsv tools/matrix2.sh <seeded dir name>...   — like matrix.sh, for an explicit list;
# honours meta.json "checked_with" (a change that breaks a different property than the one it was written for)
out=/verif/.build/${MATRIX_OUT:-matrix_x.tsv}; : > $out
cd /verif
for name in "$@"; do
  d=/verif/seeded/$name; pid=${name%%-*}
  cw=$(python3 -c "import json;print(json.load(open('$d/meta.json')).get('checked_with',''))")
  [ -n "$cw" ] && pid=$cw
  patch=$d/patch.diff; [ -f $d/patch_rebased.diff ] && patch=$d/patch_rebased.diff
  s=$(date +%s)
  res=$(tools/try_mutant.sh $patch $pid 2>&1 | head -1)
  rc=$(echo "$res" | sed -E 's/.*exit=([0-9]+).*/\1/')
  e=$(date +%s)
  job=$(grep -m1 '"job"' /verif/.build/mut-$pid.err | cut -c1-200)
  printf "%s\t%s\t%s\t%ss\t%s\n" "$name" "$pid" "$rc" "$((e-s))" "$job" >> $out
done
echo MATRIX-DONE >> $out
