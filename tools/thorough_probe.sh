#!/bin/bash
# probe the thorough tier of every Engine-S check under a short budget (machinery check, not evidence)
b=${1:-120}
for id in C01 C02 C03 C04 C05 C06 C07 C08 C09 C10 C11 C12 C13 C14 C15 C16 C17 C18 C19 C20; do
  /verif/.build/symk-target/release/symk $id --tier thorough --budget $b --out /verif/.build/th-$id.json 2>&1 | tail -1
done
echo THDONE
