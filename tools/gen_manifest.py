#!/usr/bin/env python3
"""Regenerate MANIFEST.json from the table below (kept in one place so that it stays valid)."""
import json
props = [json.loads(l) for l in open('/verif/properties.jsonl')]
S_TEXT = ("Bounded symbolic execution of the real generic library code at a symbolic ArrayKind backend (Engine S): for every "
          "shape in the box every wiring, arity split, label and value is a solver variable; on every feasible path the solver "
          "decides path-condition AND NOT(oracle obligation). unsat on all paths = the property holds for all contents of those "
          "shapes; a sat answer is replayed natively on the library's own VecKind build before it is reported.")
LAX_TEXT = ("Lax tier of Engine S: the real (VecKind-concrete) lax code runs natively under the path explorer with symbolic labels; every "
            "label comparison the code makes is decided by the solver and the final obligation is an SMT query over the labels. Node "
            "identifiers are concrete usize in the library, so the wirings of each shape are enumerated exhaustively (not solver-decided) — "
            "stated in the evidence as `enumerated_choices`.")
K_TEXT = ("Engine K: Kani 0.68 / CBMC 6.11 proof harnesses over the compiled crate: array contents are kani::any(), lengths and count-like arguments concrete per harness, unwinding assertions on, every harness carries a cover witness; a failed harness is a counterexample over the real compiled code. Engine S complements it through the public array traits.")
NOTE = ("Bounded by the shape box in coverage.bounds. Trusted: the SymKind model of a contract-conforming array backend (re-validated natively "
        "against VecKind on every explored path), z3 for unsat answers (sat answers are replayed).")
checks = {
 "C01": ("S", "compose vs reference pushout up to isomorphism; None iff boundary types differ; lax compose / >> / lax_compose (lax tier, interfaces up to 3); Vec-backend conformance of the gluing primitives incl. union-find depth 3/4"),
 "C02": ("S", "strict tensor equals juxtaposition as data; associativity and unit on the nose ; lax half (lax tier): lax tensor incl. pending pairs equals juxtaposition as data, associativity, unit"),
 "C03": ("S", "associativity, identities, interchange, naturality/self-inverse/hexagons of the symmetry, each decided up to genuine isomorphism; lax half (lax tier): the laws for lax diagrams with pending unifications, compared after to_strict"),
 "C04": ("S", "dagger laws, spider accept/reject with symbolic codomains, spider fusion vs cospan composite, identities and symmetries are spiders; lax half (lax tier): lax identity/twist/singleton/spider/half_spider data, dagger, fusion through strictification"),
 "C05": ("S", "checked constructors on raw 64-bit data accept iff documented conditions; Err variants name a failing condition; results well-formed and typed; the small end of the lax / functor / native-functor / optic job lists (C09, C10, C12, C13, C14, C19) for the entry points the statement names"),
 "C06": ("S", "finite-function operations vs functions-as-term-vectors; coequalizer minimality via an independent closure; universal map iff constant on fibres"),
 "C07": ("SK", "Engine K: Kani proof harnesses of every VecArray primitive against scalar specifications (all contents of arrays of length 0..3, unwinding assertions on); Engine S: the same contract through the array traits at both backends, one native VecKind run per order/equality pattern of the inputs"),
 "C08": ("S", "segmented-array operations vs list-of-lists decoding and the size invariant; real iterator next/len/size_hint"),
 "C10": ("L", "conversions: round trips exact, to_strict panics iff label conflict and otherwise is the quotient; lax compose defined iff types match (unchecked iff arities), results glue the strict meanings; strictification commutes with ; (x) dagger (both sides by the real code, up to iso); in-place tensor/append/coproduct equal the pure forms as data; lax identity/twist/singleton/spider strictify to the strict constructors (defined on both sides or neither)"),
 "C11": ("L", "every builder call from an arbitrary state vs a list model: returned identifiers, resulting fields, deletion witness, rejection of out-of-range identifiers; serde JSON round trip (labels serialised as opaque tokens) and documented JSON shape; thorough tier adds a Kani harness of delete_nodes with symbolic identifiers"),
 "C13": ("L", "native path: None iff pending unifications; quotiented image isomorphic to the substitution and to the strict path; witness sizes, labels and interface push-through"),
 "C19": ("L", "forget / forget_monogamous vs substitution with the replace-iff-uniform rule up to iso; scripted Var-builder expressions evaluate to the expression written on symbolic inputs; build fails iff a handle outlives the builder and the state handed back is the term as built; every binary operator of the test signature is read order-sensitively"),
 "C09": ("L", "quotient: fibres = classes of the pending pairs, references mapped, labels of fibres, idempotence, Err iff label conflict and then unchanged; deprecated alias quotient_witness; thorough tier adds a Kani harness of quotient on a 3-node state with symbolic identifiers"),
 "C12": ("S", "functor application vs generator-wise substitution (six functor families) up to isomorphism; preservation laws; lax half (lax tier): dyn_functor path on seven lax functor families incl. images with pending unifications"),
 "C14": ("S", "optic image vs substitution with lens-shaped images up to isomorphism; interleaved types; adapted form, its type and monogamy; functoriality; lax entry points map_arrow/map_adapted (lax tier); reverse-derivative clause: adapted optic of every monogamous acyclic polynomial circuit with <=3 operations (wirings enumerated) evaluated by the real eval on symbolic 64-bit (x,dy) = (f(x), J^T dy) from an independent reverse accumulation"),
 "C15": ("S", "layering obligations vs dependency / cycle / longest-chain oracle; grouped form"),
 "C16": ("S", "eval vs Jacobi evaluation oracle on symbolic wirings and 64-bit inputs; None iff cyclic; every hyperedge interpreted once"),
 "C17": ("S", "is_acyclic / is_monogamous / degrees vs definitions, in the dev and the release arithmetic profile"),
 "C18": ("S", "HypergraphArrow acceptance iff morphism; Err names a failing condition; mono iff injective; convexity vs two-flag reachability oracle"),
 "C20": ("S", "the obligations of C01/C04/C06/C12/C14/C15/C16/C17/C18 with argsort tie order, component numbering, key order and scatter filler chosen adversarially by the solver"),
}
NA = {
}
import sys
if len(sys.argv) > 1:
    exec(open(sys.argv[1]).read())   # optional overrides: may edit `checks` and `NA`
out_checks = []
for pid in sorted(checks):
    eng, what = checks[pid]
    out_checks.append({
        "property_id": pid,
        "quick_cmd": f"./vf check {pid} --tier quick",
        "thorough_cmd": f"./vf check {pid} --tier thorough",
        "evidence_file": f"evidence/{pid}.json",
        "replay_cmd_template": "./vf replay {path}",
        "engine": {"S": "S", "L": "S (lax tier)", "K": "K", "SK": "S+K"}[eng],
        "level_claimed": {"category": "model_checking", "text": (LAX_TEXT if eng == "L" else (K_TEXT if eng == "SK" else S_TEXT)) + " Oracle: " + what + ".", "design_ref": f"DESIGN.md section 4 ({pid}), 3.1-3.2, 3.6" + (", 3.8" if eng == "L" else "")},
        "level_note": NOTE,
        "technique": ("bounded model checking of the compiled Vec backend with Kani/CBMC (SAT) against scalar specs; plus symbolic execution through the array traits with native VecKind replays per input pattern" if eng == "SK" else "symbolic execution of the real lax code with symbolic labels + SMT (z3); node-identifier wirings enumerated exhaustively" if eng == "L" else "symbolic execution of the real generic code over a symbolic array backend + SMT (z3 QF_BV); counterexamples replayed natively"),
    })
na = [{"property_id": p["id"], "reason": NA[p["id"]]} for p in props if p["id"] not in checks]
m = {"version": 1,
     "setup_cmd": "./vf setup",
     "hooks": {"guard": "verif-hooks", "enable": "cargo feature `verif-hooks` of open-hypergraphs, switched on only by the Kani harness crate (kani/Cargo.toml path dependency); Engine S and all native replays build /repo with the guard off", "baseline_off_cmd": "cd /repo && cargo test --workspace --no-fail-fast --offline", "source_commits": ["4b2de11"], "add_only": True},
     "engines": [{"name": "K", "path": "kani/", "serves_properties": ["C07", "C09", "C10", "C11"], "kind_free_text": "Kani proof harness crate with a path dependency on /repo (feature verif-hooks on: association-list stand-in for std HashMap)"}, {"name": "S", "path": "symk/", "serves_properties": sorted(checks), "kind_free_text": "symbolic ArrayKind backend + re-execution path explorer + SMT-LIB pipe to z3; runs the real generic library code over bit-vector terms; lax tier runs the real lax code with symbolic labels"}],
     "checks": out_checks,
     "not_applicable": na,
     "notes": "see DESIGN.md; known_findings.json lists the genuine defects found (all repaired with fix: commits in /repo)"}
json.dump(m, open('/verif/MANIFEST.json', 'w'), indent=1)
print("checks:", len(out_checks), "not_applicable:", [x["property_id"] for x in na])
