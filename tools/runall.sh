#!/bin/bash
# run the listed checks sequentially, log a one-line summary each
for id in "$@"; do
  s=$(date +%s); ./vf check $id > .build/$id.out 2> .build/$id.err; rc=$?; e=$(date +%s)
  echo "$id exit=$rc wall=$((e-s))s $(grep -c VIOLATION .build/$id.out) violations; $(tail -1 .build/$id.err)"
done
