"""Engine K: runs the Kani proof harnesses of a property and summarises them for `vf`."""
import glob, json, os, re, shutil, subprocess, time

# property -> (harness filters quick, extra filters thorough, per-harness timeout quick/thorough, jobs)
PLAN = {
    "C07": {"filters": ["c07::"], "timeout": (150, 2700), "jobs": (12, 8)},
    # thorough-tier extras: symbolic node identifiers for two lax operations (complements the lax tier of Engine S)
    "C09": {"filters": ["lax_k::c09_"], "timeout": (0, 1500), "jobs": (2, 2), "thorough_only": True},
    "C10": {"filters": ["lax_k::c10_"], "timeout": (0, 1200), "jobs": (2, 2), "thorough_only": True},
    "C11": {"filters": ["lax_k::c11_"], "timeout": (0, 1200), "jobs": (2, 2), "thorough_only": True},
}

ASSUMPTIONS = [
    "Kani 0.68 / CBMC 6.11 (CaDiCaL) bit-precise model of the compiled crate, dev profile semantics (overflow checks on)",
    "lengths and count-like arguments are concrete per harness instance; contents are kani::any(); unwinding assertions are on",
    "std::collections::HashMap is replaced by an association list (cargo feature verif-hooks) inside to_dense and sparse_bincount; std's HashMap is trusted to be a map",
    "numeric inputs of the summing primitives are assumed < 2^40 so that the scalar specification cannot overflow (overflow behaviour is not part of the documented contract)",
]


def _env():
    return dict(os.environ, CARGO_NET_OFFLINE="true", CARGO_TERM_COLOR="never")


def setup(root, build, log):
    shutil.copy("/repo/Cargo.lock", os.path.join(root, "kani", "Cargo.lock")) if False else None
    r = subprocess.run(["cargo", "kani", "--target-dir", os.path.join(build, "kani-target"), "--only-codegen"], cwd=os.path.join(root, "kani"), env=_env(), stdout=subprocess.PIPE, stderr=subprocess.STDOUT, text=True)
    if r.returncode != 0:
        log(r.stdout[-3000:])
        log("vf: building the Kani harness crate failed")
        return False
    return True


def run(pid, tier, seed, root, build, log):
    if pid not in PLAN:
        return None
    plan = PLAN[pid]
    if plan.get("thorough_only") and tier != "thorough":
        return None
    t0 = time.time()
    timeout = plan["timeout"][0 if tier == "quick" else 1]
    jobs = plan["jobs"][0 if tier == "quick" else 1]
    outdir = os.path.join(build, f"kani-out-{pid}")
    shutil.rmtree(outdir, ignore_errors=True)
    os.makedirs(outdir, exist_ok=True)
    cmd = ["cargo", "kani", "--target-dir", os.path.join(build, "kani-target"), "--output-format", "terse", "-j", str(jobs), "-Z", "unstable-options", "--harness-timeout", f"{timeout}s"]
    if tier == "thorough":
        cmd += ["--features", "thorough"]
    for f in plan["filters"]:
        cmd += ["--harness", f]
    logf = os.path.join(build, f"kani-{pid}.log")
    # address-space cap per process (inherited by every cbmc): 62 GB machine without swap, `jobs` solvers at once
    cap = max(8 * 2**30, int(48 * 2**30 / max(jobs, 1)))
    def limit():
        import resource
        resource.setrlimit(resource.RLIMIT_AS, (cap, cap))
    with open(logf, "w") as lf:
        r = subprocess.run(cmd, cwd=os.path.join(root, "kani"), env=_env(), stdout=lf, stderr=subprocess.STDOUT, text=True, preexec_fn=limit)
    text = open(logf).read()
    if "error: could not compile" in text or "Failed to execute cargo" in text:
        log(text[-3000:])
        return {"failed": True, "coverage": {"error": "harness crate does not compile against /repo"}, "violations": []}
    names = sorted(set(re.findall(r"Checking harness (\S+?)\.\.\.", text)))
    if not names:
        log(text[-2000:])
        return {"failed": True, "coverage": {"error": "no harness ran"}, "violations": []}
    res = parse(text, names)
    verified = [n for n, v in res.items() if v["status"] == "verified"]
    failed = [n for n, v in res.items() if v["status"] == "failed"]
    inconclusive = [n for n, v in res.items() if v["status"] not in ("verified", "failed")]
    violations = []
    os.makedirs(os.path.join(root, "replays"), exist_ok=True)
    for n in failed:
        path = os.path.join("replays", f"{pid}-kani-{n.replace('::', '_')}.json")
        json.dump({"property": pid, "engine": "K", "harness": n, "failed_checks": res[n]["failed_checks"]}, open(os.path.join(root, path), "w"), indent=1)
        violations.append({"harness": n, "what": "Kani proof harness failed: " + "; ".join(res[n]["failed_checks"][:3]), "replay": path})
    cov = {
        "harnesses_total": len(names),
        "harnesses_verified": len(verified),
        "harnesses_failed": failed,
        "harnesses_inconclusive": inconclusive,
        "properties_checked": sum(v.get("checks", 0) for v in res.values()),
        "cover_witnesses_satisfied": sum(1 for v in res.values() if v.get("cover_ok")),
        "solver_s": round(sum(v.get("time", 0) for v in res.values()), 1),
        "wall_s": round(time.time() - t0, 1),
        "per_harness_timeout_s": timeout,
        "samples": [{"harness": n, "checks": res[n].get("checks"), "time_s": res[n].get("time")} for n in names[:6]],
        "functions_encoded": (["VecArray: Array/OrdArray/NaturalArray impls (array/vec/vec_array.rs)", "array/vec/connected_components.rs: UnionFind, connected_components, to_dense", "array/traits.rs default methods: to_range, sort_by, sum, segmented_sum, segmented_arange"] if pid == "C07" else ["lax::OpenHypergraph::{delete_nodes,lax_compose,tensor,unify} on a 3-node state with symbolic node identifiers (one hyperedge 2->1, one pending pair, interfaces 1/1)"]),
        "bounds": "3 nodes, 1 hyperedge 2->1, 1 pending pair, interfaces 1/1, all identifiers and labels kani::any()" if pid != "C07" else "array lengths 0..3 (quick) / 0..4 (thorough), element types u8 and usize for the generic primitives, all five range forms, repeat/segmented counts from a fixed list, connected components n<=3 e<=2 (thorough n=4 e=3), sparse_bincount length <=1 (thorough <=3 under the per-harness cap; inconclusive harnesses are listed, never counted as verified); multiply-add constant and quot_rem divisor concrete per instance (c,d) in {(0,1),(3,2),(2,3)}",
    }
    # a harness whose cover witness is not satisfied proves nothing
    vacuous = [n for n in verified if not res[n].get("cover_ok")]
    return {"coverage": cov, "violations": violations, "failed": bool(vacuous), "assumptions": ASSUMPTIONS, "vacuous": vacuous}


def parse(text, names):
    """per-harness results from terse output produced with -j (blocks may interleave; results are keyed by the
    'Checking harness' line that precedes them in the same thread)"""
    res = {n: {"status": "no-result", "failed_checks": []} for n in names}
    cur = {}
    last_thread = None
    for line in text.splitlines():
        m = re.match(r"(?:Thread (\d+): )?Checking harness (\S+?)\.\.\.", line)
        if m:
            last_thread = m.group(1) or "0"
            cur[last_thread] = m.group(2)
            continue
        m = re.match(r"Thread (\d+): ", line)
        if m:
            last_thread = m.group(1)
            continue
        name = cur.get(last_thread)
        if not name or name not in res:
            continue
        r = res[name]
        m = re.search(r"\*\* (\d+) of (\d+) failed", line)
        if m:
            r["checks"] = int(m.group(2))
        m = re.search(r"\*\* (\d+) of (\d+) cover properties satisfied", line)
        if m:
            r["cover_ok"] = m.group(1) == m.group(2) and int(m.group(2)) > 0
        if line.startswith("Failed Checks:"):
            r["failed_checks"].append(line[len("Failed Checks:"):].strip())
        if "VERIFICATION:- SUCCESSFUL" in line:
            r["status"] = "verified"
        if "VERIFICATION:- FAILED" in line:
            r["status"] = "unwinding" if any("unwinding" in c for c in r["failed_checks"]) and all("unwinding" in c for c in r["failed_checks"]) else "failed"
        if "run out of memory" in line or "CBMC failed" in line:
            r["oom"] = r.get("oom") or "run out of memory" in line
            r["cbmc_failed"] = True
        if "timed out" in line.lower() or "TIMEOUT" in line:
            r["status"] = "timeout"
        m = re.search(r"Verification Time: ([\d.]+)s", line)
        if m:
            r["time"] = float(m.group(1))
    # a harness that "failed" without a failed check (CBMC killed, out of memory, internal error) decided nothing
    for n, r in res.items():
        if r["status"] == "failed" and (r.get("oom") or not r["failed_checks"]):
            r["status"] = "out-of-memory" if r.get("oom") else "no-verdict"
    # Kani's own summary is authoritative for failures
    for m in re.finditer(r"Verification failed for - (\S+)", text):
        n = m.group(1)
        if n in res and res[n]["status"] == "verified":
            res[n]["status"] = "failed"
    return res


def replay(d, root, build, log):
    n = d["harness"]
    cmd = ["cargo", "kani", "--target-dir", os.path.join(build, "kani-target"), "--output-format", "terse", "--exact", "--harness", n]
    r = subprocess.run(cmd, cwd=os.path.join(root, "kani"), env=_env(), stdout=subprocess.PIPE, stderr=subprocess.STDOUT, text=True)
    print(r.stdout[-2500:])
    if "VERIFICATION:- FAILED" in r.stdout:
        print(f"VIOLATION property={d['property']} replay=replays/{d['property']}-kani-{n.replace('::', '_')}.json")
        return 1
    return 0
