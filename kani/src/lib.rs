//! Engine K: Kani proof harnesses for the Vec array backend (C07) against scalar specifications.
#![allow(clippy::all)]
#[cfg(kani)]
mod c07;
pub mod spec;
