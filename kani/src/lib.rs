//! Engine K: Kani proof harnesses for the Vec array backend (C07) against scalar specifications.
#![allow(clippy::all)]
#[cfg(kani)]
mod c07;
#[cfg(all(kani, feature = "thorough"))]
mod lax_k;
pub mod spec;
