//! Scalar specifications of the array primitives: plain loops, one per primitive.
pub fn is_perm(p: &[usize]) -> bool {
    let n = p.len();
    let mut i = 0;
    while i < n {
        if p[i] >= n {
            return false;
        }
        let mut j = 0;
        while j < i {
            if p[j] == p[i] {
                return false;
            }
            j += 1;
        }
        i += 1;
    }
    true
}
