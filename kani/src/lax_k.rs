//! Engine K extras (thorough tier) for the lax module: node identifiers are symbolic here, which
//! complements the lax tier of Engine S (identifiers enumerated, labels symbolic).
use open_hypergraphs::lax::*;

fn any_id(n: usize) -> NodeId {
    let v: usize = kani::any();
    kani::assume(v < n);
    NodeId(v)
}

/// an arbitrary state: 3 nodes, one hyperedge 2 -> 1, one pending pair, interfaces 1/1
fn any_state() -> OpenHypergraph<u8, u8> {
    let nodes: [u8; 3] = kani::any();
    OpenHypergraph {
        sources: vec![any_id(3)],
        targets: vec![any_id(3)],
        hypergraph: Hypergraph { nodes: nodes.to_vec(), edges: vec![kani::any()], adjacency: vec![Hyperedge { sources: vec![any_id(3), any_id(3)], targets: vec![any_id(3)] }], quotient: (vec![any_id(3)], vec![any_id(3)]) },
    }
}

/// C11: deletion of two (possibly equal) nodes refines the list model
#[kani::proof]
#[kani::unwind(6)]
fn c11_delete_nodes() {
    let f0 = any_state();
    let (a, b) = (any_id(3), any_id(3));
    let mut f = f0.clone();
    f.delete_nodes(&[a, b]);
    // monotone renumbering of the survivors
    let mut new_index = [usize::MAX; 3];
    let mut k = 0;
    let mut i = 0;
    while i < 3 {
        if i != a.0 && i != b.0 {
            new_index[i] = k;
            k += 1;
        }
        i += 1;
    }
    assert!(f.hypergraph.nodes.len() == k);
    let mut i = 0;
    while i < 3 {
        if new_index[i] != usize::MAX {
            assert!(f.hypergraph.nodes[new_index[i]] == f0.hypergraph.nodes[i]);
        }
        i += 1;
    }
    // edges and their labels untouched; references to deleted nodes dropped, the others renumbered, in order
    assert!(f.hypergraph.edges.len() == 1 && f.hypergraph.edges[0] == f0.hypergraph.edges[0] && f.hypergraph.adjacency.len() == 1);
    let old = &f0.hypergraph.adjacency[0];
    let new = &f.hypergraph.adjacency[0];
    let mut pos = 0;
    let mut i = 0;
    while i < 2 {
        let m = new_index[old.sources[i].0];
        if m != usize::MAX {
            assert!(pos < new.sources.len() && new.sources[pos].0 == m);
            pos += 1;
        }
        i += 1;
    }
    assert!(new.sources.len() == pos);
    let m = new_index[old.targets[0].0];
    assert!(if m == usize::MAX { new.targets.is_empty() } else { new.targets.len() == 1 && new.targets[0].0 == m });
    // interfaces
    let m = new_index[f0.sources[0].0];
    assert!(if m == usize::MAX { f.sources.is_empty() } else { f.sources.len() == 1 && f.sources[0].0 == m });
    let m = new_index[f0.targets[0].0];
    assert!(if m == usize::MAX { f.targets.is_empty() } else { f.targets.len() == 1 && f.targets[0].0 == m });
    // a pending pair survives iff both of its endpoints do
    let (p, q) = (new_index[f0.hypergraph.quotient.0[0].0], new_index[f0.hypergraph.quotient.1[0].0]);
    if p != usize::MAX && q != usize::MAX {
        assert!(f.hypergraph.quotient.0.len() == 1 && f.hypergraph.quotient.1.len() == 1);
        assert!(f.hypergraph.quotient.0[0].0 == p && f.hypergraph.quotient.1[0].0 == q);
    } else {
        assert!(f.hypergraph.quotient.0.is_empty() && f.hypergraph.quotient.1.is_empty());
    }
    kani::cover!(true);
    std::mem::forget(f);
    std::mem::forget(f0);
}

/// C10/C02: lax_compose output = juxtaposition + one unification pair per boundary position + truncated interfaces
#[kani::proof]
#[kani::unwind(6)]
fn c10_lax_compose() {
    let f = any_state();
    let g = any_state();
    let r = f.lax_compose(&g).expect("arities match");
    assert!(r.hypergraph.nodes.len() == 6 && r.hypergraph.edges.len() == 2 && r.hypergraph.adjacency.len() == 2);
    assert!(r.sources.len() == 1 && r.sources[0] == f.sources[0]);
    assert!(r.targets.len() == 1 && r.targets[0].0 == g.targets[0].0 + 3);
    // pending pairs: f's, g's (shifted), then the boundary pair
    assert!(r.hypergraph.quotient.0.len() == 3 && r.hypergraph.quotient.1.len() == 3);
    assert!(r.hypergraph.quotient.0[0] == f.hypergraph.quotient.0[0] && r.hypergraph.quotient.1[0] == f.hypergraph.quotient.1[0]);
    assert!(r.hypergraph.quotient.0[1].0 == g.hypergraph.quotient.0[0].0 + 3 && r.hypergraph.quotient.1[1].0 == g.hypergraph.quotient.1[0].0 + 3);
    assert!(r.hypergraph.quotient.0[2] == f.targets[0] && r.hypergraph.quotient.1[2].0 == g.sources[0].0 + 3);
    assert!(r.hypergraph.adjacency[1].sources[0].0 == g.hypergraph.adjacency[0].sources[0].0 + 3);
    assert!(r.hypergraph.adjacency[1].sources[1].0 == g.hypergraph.adjacency[0].sources[1].0 + 3);
    assert!(r.hypergraph.adjacency[1].targets[0].0 == g.hypergraph.adjacency[0].targets[0].0 + 3);
    assert!(r.hypergraph.adjacency[0] == f.hypergraph.adjacency[0]);
    kani::cover!(true);
    std::mem::forget(r);
    std::mem::forget(f);
    std::mem::forget(g);
}

/// C09: quotient on a 3-node state with two pending pairs (symbolic identifiers and labels)
#[kani::proof]
#[kani::unwind(8)]
fn c09_quotient() {
    let nodes: [u8; 3] = kani::any();
    let (a, b, c, d) = (any_id(3), any_id(3), any_id(3), any_id(3));
    let (s0, t0, e0, e1) = (any_id(3), any_id(3), any_id(3), any_id(3));
    let f0: OpenHypergraph<u8, u8> = OpenHypergraph {
        sources: vec![s0],
        targets: vec![t0],
        hypergraph: Hypergraph { nodes: nodes.to_vec(), edges: vec![7], adjacency: vec![Hyperedge { sources: vec![e0], targets: vec![e1] }], quotient: (vec![a, c], vec![b, d]) },
    };
    let mut f = f0.clone();
    let r = f.quotient();
    // classes of the two pairs by relaxation of a label array
    let mut cls = [0usize, 1, 2];
    let mut round = 0;
    while round < 3 {
        let mut k = 0;
        while k < 2 {
            let (x, y) = if k == 0 { (a.0, b.0) } else { (c.0, d.0) };
            let (p, q) = (cls[x], cls[y]);
            let m = if p < q { p } else { q };
            let mut i = 0;
            while i < 3 {
                if cls[i] == p || cls[i] == q {
                    cls[i] = m;
                }
                i += 1;
            }
            k += 1;
        }
        round += 1;
    }
    let mut consistent = true;
    let mut i = 0;
    while i < 3 {
        consistent &= nodes[i] == nodes[cls[i]];
        i += 1;
    }
    match r {
        Ok(q) => {
            assert!(consistent);
            assert!(q.table.0.len() == 3);
            let k = f.hypergraph.nodes.len();
            let mut i = 0;
            while i < 3 {
                assert!(q.table.0[i] < k);
                assert!(f.hypergraph.nodes[q.table.0[i]] == nodes[i]);
                let mut j = 0;
                while j < 3 {
                    assert!((q.table.0[i] == q.table.0[j]) == (cls[i] == cls[j]));
                    j += 1;
                }
                i += 1;
            }
            assert!(f.sources[0].0 == q.table.0[s0.0] && f.targets[0].0 == q.table.0[t0.0]);
            assert!(f.hypergraph.adjacency[0].sources[0].0 == q.table.0[e0.0] && f.hypergraph.adjacency[0].targets[0].0 == q.table.0[e1.0]);
            assert!(f.hypergraph.quotient.0.is_empty() && f.hypergraph.quotient.1.is_empty());
            assert!(f.hypergraph.edges.len() == 1 && f.hypergraph.edges[0] == 7);
        }
        Err(_) => {
            assert!(!consistent);
            // a failed quotient leaves the diagram exactly as it was
            assert!(f.hypergraph.nodes.len() == 3);
            let mut i = 0;
            while i < 3 {
                assert!(f.hypergraph.nodes[i] == nodes[i]);
                i += 1;
            }
            assert!(f.sources[0] == s0 && f.targets[0] == t0);
            assert!(f.hypergraph.adjacency[0].sources[0] == e0 && f.hypergraph.adjacency[0].targets[0] == e1);
            assert!(f.hypergraph.quotient.0.len() == 2 && f.hypergraph.quotient.0[0] == a && f.hypergraph.quotient.1[1] == d);
        }
    }
    kani::cover!(true);
    std::mem::forget(f);
    std::mem::forget(f0);
}
