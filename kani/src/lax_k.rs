//! Engine K extras (thorough tier) for the lax module: node identifiers are symbolic here, which
//! complements the lax tier of Engine S (identifiers enumerated, labels symbolic).
use open_hypergraphs::lax::*;

fn any_id(n: usize) -> NodeId {
    let v: usize = kani::any();
    kani::assume(v < n);
    NodeId(v)
}

/// an arbitrary state: 3 nodes, one hyperedge 2 -> 1, one pending pair, interfaces 1/1
fn any_state() -> OpenHypergraph<u8, u8> {
    let nodes: [u8; 3] = kani::any();
    OpenHypergraph {
        sources: vec![any_id(3)],
        targets: vec![any_id(3)],
        hypergraph: Hypergraph { nodes: nodes.to_vec(), edges: vec![kani::any()], adjacency: vec![Hyperedge { sources: vec![any_id(3), any_id(3)], targets: vec![any_id(3)] }], quotient: (vec![any_id(3)], vec![any_id(3)]) },
    }
}

/// C11: deletion of two (possibly equal) nodes refines the list model
#[kani::proof]
#[kani::unwind(6)]
fn c11_delete_nodes() {
    let f0 = any_state();
    let (a, b) = (any_id(3), any_id(3));
    let mut f = f0.clone();
    f.delete_nodes(&[a, b]);
    // monotone renumbering of the survivors
    let mut new_index = [usize::MAX; 3];
    let mut k = 0;
    let mut i = 0;
    while i < 3 {
        if i != a.0 && i != b.0 {
            new_index[i] = k;
            k += 1;
        }
        i += 1;
    }
    assert!(f.hypergraph.nodes.len() == k);
    let mut i = 0;
    while i < 3 {
        if new_index[i] != usize::MAX {
            assert!(f.hypergraph.nodes[new_index[i]] == f0.hypergraph.nodes[i]);
        }
        i += 1;
    }
    // edges and their labels untouched; references to deleted nodes dropped, the others renumbered, in order
    assert!(f.hypergraph.edges.len() == 1 && f.hypergraph.edges[0] == f0.hypergraph.edges[0] && f.hypergraph.adjacency.len() == 1);
    let old = &f0.hypergraph.adjacency[0];
    let new = &f.hypergraph.adjacency[0];
    let mut pos = 0;
    let mut i = 0;
    while i < 2 {
        let m = new_index[old.sources[i].0];
        if m != usize::MAX {
            assert!(pos < new.sources.len() && new.sources[pos].0 == m);
            pos += 1;
        }
        i += 1;
    }
    assert!(new.sources.len() == pos);
    let m = new_index[old.targets[0].0];
    assert!(if m == usize::MAX { new.targets.is_empty() } else { new.targets.len() == 1 && new.targets[0].0 == m });
    // interfaces
    let m = new_index[f0.sources[0].0];
    assert!(if m == usize::MAX { f.sources.is_empty() } else { f.sources.len() == 1 && f.sources[0].0 == m });
    let m = new_index[f0.targets[0].0];
    assert!(if m == usize::MAX { f.targets.is_empty() } else { f.targets.len() == 1 && f.targets[0].0 == m });
    // a pending pair survives iff both of its endpoints do
    let (p, q) = (new_index[f0.hypergraph.quotient.0[0].0], new_index[f0.hypergraph.quotient.1[0].0]);
    if p != usize::MAX && q != usize::MAX {
        assert!(f.hypergraph.quotient.0.len() == 1 && f.hypergraph.quotient.1.len() == 1);
        assert!(f.hypergraph.quotient.0[0].0 == p && f.hypergraph.quotient.1[0].0 == q);
    } else {
        assert!(f.hypergraph.quotient.0.is_empty() && f.hypergraph.quotient.1.is_empty());
    }
    kani::cover!(true);
    std::mem::forget(f);
    std::mem::forget(f0);
}

/// C10/C02: lax_compose output = juxtaposition + one unification pair per boundary position + truncated interfaces
#[kani::proof]
#[kani::unwind(6)]
fn c10_lax_compose() {
    let f = any_state();
    let g = any_state();
    let r = f.lax_compose(&g).expect("arities match");
    assert!(r.hypergraph.nodes.len() == 6 && r.hypergraph.edges.len() == 2 && r.hypergraph.adjacency.len() == 2);
    assert!(r.sources.len() == 1 && r.sources[0] == f.sources[0]);
    assert!(r.targets.len() == 1 && r.targets[0].0 == g.targets[0].0 + 3);
    // pending pairs: f's, g's (shifted), then the boundary pair
    assert!(r.hypergraph.quotient.0.len() == 3 && r.hypergraph.quotient.1.len() == 3);
    assert!(r.hypergraph.quotient.0[0] == f.hypergraph.quotient.0[0] && r.hypergraph.quotient.1[0] == f.hypergraph.quotient.1[0]);
    assert!(r.hypergraph.quotient.0[1].0 == g.hypergraph.quotient.0[0].0 + 3 && r.hypergraph.quotient.1[1].0 == g.hypergraph.quotient.1[0].0 + 3);
    assert!(r.hypergraph.quotient.0[2] == f.targets[0] && r.hypergraph.quotient.1[2].0 == g.sources[0].0 + 3);
    assert!(r.hypergraph.adjacency[1].sources[0].0 == g.hypergraph.adjacency[0].sources[0].0 + 3);
    assert!(r.hypergraph.adjacency[1].sources[1].0 == g.hypergraph.adjacency[0].sources[1].0 + 3);
    assert!(r.hypergraph.adjacency[1].targets[0].0 == g.hypergraph.adjacency[0].targets[0].0 + 3);
    assert!(r.hypergraph.adjacency[0] == f.hypergraph.adjacency[0]);
    kani::cover!(true);
    std::mem::forget(r);
    std::mem::forget(f);
    std::mem::forget(g);
}
