// This file is `include!`d twice: in `crate::sym` (K = SymKind: symbolic execution of the real
// generic code) and in `crate::nat` (K = the library's own VecKind: native execution, used for
// replays and encoder validation). Only the aliases K, L, V differ.
#[allow(unused_imports)]
use crate::conv::Conv;
#[allow(unused_imports)]
use crate::plain::*;
#[allow(unused_imports)]
use crate::term::{self as tm, T};
#[allow(unused_imports)]
use open_hypergraphs::array::*;
#[allow(unused_imports)]
use open_hypergraphs::category::*;
#[allow(unused_imports)]
use open_hypergraphs::finite_function::*;
#[allow(unused_imports)]
use open_hypergraphs::indexed_coproduct::*;
#[allow(unused_imports)]
use open_hypergraphs::operations::Operations;
#[allow(unused_imports)]
use open_hypergraphs::semifinite::*;
#[allow(unused_imports)]
use open_hypergraphs::strict::hypergraph::*;
#[allow(unused_imports)]
use open_hypergraphs::strict::open_hypergraph::{InvalidOpenHypergraph, OpenHypergraph};

pub type FF = FiniteFunction<K>;
pub type ICF = IndexedCoproduct<K, FiniteFunction<K>>;
pub type ICL = IndexedCoproduct<K, SemifiniteFunction<K, L>>;
pub type SL = SemifiniteFunction<K, L>;
pub type H = Hypergraph<K, L, L>;
pub type OH = OpenHypergraph<K, L, L>;

// ------------------------------------------------------------------ building real values from plain data
/// unchecked construction (fields are public): exactly the raw data, well-formed or not
pub fn ff_raw(r: &RawFF) -> FF {
    FiniteFunction { table: K::mk_ix(&r.table), target: K::mk_i(r.target) }
}
pub fn sl(ts: &[T]) -> SL {
    SemifiniteFunction(K::mk_ls(ts))
}
/// through the checked constructors (panics if the raw data is not well-formed)
pub fn icf(r: &RawIC) -> ICF {
    let values = FiniteFunction::new(K::mk_ix(&r.vals), K::mk_i(r.vals_target)).expect("gen: values in range");
    IndexedCoproduct::from_semifinite(SemifiniteFunction(K::mk_ix(&r.sizes).into()), values).expect("gen: sizes sum to value length")
}
pub fn icl(r: &RawIC) -> ICL {
    IndexedCoproduct::from_semifinite(SemifiniteFunction(K::mk_ix(&r.sizes).into()), sl(&r.vals)).expect("gen: sizes sum to value length")
}
pub fn hg(r: &RawH) -> H {
    Hypergraph::new(icf(&r.s), icf(&r.t), sl(&r.w), sl(&r.x)).expect("gen: well-formed hypergraph")
}
pub fn oh(r: &RawOH) -> OH {
    let s = FiniteFunction::new(K::mk_ix(&r.s.table), K::mk_i(r.s.target)).expect("gen: source leg in range");
    let t = FiniteFunction::new(K::mk_ix(&r.t.table), K::mk_i(r.t.target)).expect("gen: target leg in range");
    OpenHypergraph::new(s, t, hg(&r.h)).expect("gen: well-formed open hypergraph")
}

// ------------------------------------------------------------------ reading real values back
pub fn rd_ff(f: &FF) -> RawFF {
    RawFF { table: K::rd_ix(&f.table), target: K::rd_i(&f.target) }
}
pub fn rd_icf(c: &ICF) -> RawIC {
    RawIC { sizes: K::rd_ix(&c.sources.table), sizes_target: K::rd_i(&c.sources.target), vals: K::rd_ix(&c.values.table), vals_target: K::rd_i(&c.values.target) }
}
pub fn rd_icl(c: &ICL) -> RawIC {
    RawIC { sizes: K::rd_ix(&c.sources.table), sizes_target: K::rd_i(&c.sources.target), vals: K::rd_ls(&c.values.0), vals_target: tm::c(0, crate::explore::iw()) }
}
pub fn rd_h(h: &H) -> RawH {
    RawH { s: rd_icf(&h.s), t: rd_icf(&h.t), w: K::rd_ls(&h.w.0), x: K::rd_ls(&h.x.0) }
}
pub fn rd_oh(f: &OH) -> RawOH {
    RawOH { s: rd_ff(&f.s), t: rd_ff(&f.t), h: rd_h(&f.h) }
}
pub fn pv_opt_oh(r: Option<OH>) -> PV {
    match r {
        None => PV::None,
        Some(f) => PV::Some(Box::new(PV::OH(rd_oh(&f)))),
    }
}

// ------------------------------------------------------------------ C01
pub fn c01_compose(inp: &PV) -> PV {
    let (f, g) = (oh(inp.at(0).oh()), oh(inp.at(1).oh()));
    pv_opt_oh(f.compose(&g))
}

pub fn pv_bool(b: bool) -> PV {
    PV::T(tm::bconst(b))
}
pub fn pv_ix(a: &<K as ArrayKind>::Index) -> PV {
    PV::of_ts(&K::rd_ix(a))
}

// ------------------------------------------------------------------ C17
pub fn c17_acyclic(inp: &PV) -> PV {
    let f = oh(inp.at(0).oh());
    let a = f.is_acyclic();
    let b = f.h.is_acyclic();
    PV::List(vec![pv_bool(a), pv_bool(b)])
}
pub fn c17_monogamous(inp: &PV) -> PV {
    pv_bool(oh(inp.at(0).oh()).is_monogamous())
}
pub fn c17_degrees(inp: &PV) -> PV {
    let f = oh(inp.at(0).oh());
    let v = K::mk_i(inp.at(1).t());
    PV::List(vec![PV::T(K::rd_i(&f.h.in_degree(v.clone()))), PV::T(K::rd_i(&f.h.out_degree(v)))])
}

// ------------------------------------------------------------------ C15
pub fn c15_layer(inp: &PV) -> PV {
    let f = oh(inp.at(0).oh());
    let (order, unvisited) = open_hypergraphs::strict::layer::layer(&f);
    PV::List(vec![PV::FF(rd_ff(&order)), PV::of_ts(&K::rd_ix(&unvisited))])
}
pub fn c15_layered(inp: &PV) -> PV {
    let f = oh(inp.at(0).oh());
    let (groups, unvisited) = open_hypergraphs::strict::layer::layered_operations(&f);
    let (order, _) = open_hypergraphs::strict::layer::layer(&f);
    PV::List(vec![PV::List(groups.iter().map(|g| pv_ix(g)).collect()), pv_ix(&unvisited), PV::FF(rd_ff(&order))])
}

// ------------------------------------------------------------------ C02 / C03 / C04 (categorical structure)
pub fn pv_oh(f: &OH) -> PV {
    PV::OH(rd_oh(f))
}
pub fn pv_labels(a: &SL) -> PV {
    PV::of_ts(&K::rd_ls(&a.0))
}
pub fn unit_oh() -> OH {
    OpenHypergraph::identity(<OH as Monoidal>::unit())
}
pub fn c02_tensor(inp: &PV) -> PV {
    let (f, g) = (oh(inp.at(0).oh()), oh(inp.at(1).oh()));
    let r = f.tensor(&g);
    let r2 = &f | &g;
    PV::List(vec![pv_oh(&r), pv_labels(&r.source()), pv_labels(&r.target()), pv_oh(&r2)])
}
pub fn c02_assoc(inp: &PV) -> PV {
    let (f, g, h) = (oh(inp.at(0).oh()), oh(inp.at(1).oh()), oh(inp.at(2).oh()));
    PV::List(vec![pv_oh(&f.tensor(&g).tensor(&h)), pv_oh(&f.tensor(&g.tensor(&h)))])
}
pub fn c02_unit(inp: &PV) -> PV {
    let f = oh(inp.at(0).oh());
    let u = unit_oh();
    PV::List(vec![pv_oh(&f.tensor(&u)), pv_oh(&u.tensor(&f)), pv_oh(&u)])
}
fn opt2(a: Option<OH>, b: Option<OH>) -> PV {
    PV::List(vec![pv_opt_oh(a), pv_opt_oh(b)])
}
pub fn c03_assoc(inp: &PV) -> PV {
    let (f, g, h) = (oh(inp.at(0).oh()), oh(inp.at(1).oh()), oh(inp.at(2).oh()));
    let l = f.compose(&g).and_then(|fg| fg.compose(&h));
    let r = g.compose(&h).and_then(|gh| f.compose(&gh));
    opt2(l, r)
}
pub fn c03_ident(inp: &PV) -> PV {
    let f = oh(inp.at(0).oh());
    let l = OH::identity(f.source()).compose(&f);
    let r = f.compose(&OH::identity(f.target()));
    opt2(l, r)
}
pub fn c03_interchange(inp: &PV) -> PV {
    let (f, g, h, k) = (oh(inp.at(0).oh()), oh(inp.at(1).oh()), oh(inp.at(2).oh()), oh(inp.at(3).oh()));
    let l = f.tensor(&g).compose(&h.tensor(&k));
    let r = match (f.compose(&h), g.compose(&k)) {
        (Some(a), Some(b)) => Some(a.tensor(&b)),
        _ => None,
    };
    opt2(l, r)
}
pub fn c03_twist_nat(inp: &PV) -> PV {
    let (f, g) = (oh(inp.at(0).oh()), oh(inp.at(1).oh()));
    let l = f.tensor(&g).compose(&OH::twist(f.target(), g.target()));
    let r = OH::twist(f.source(), g.source()).compose(&g.tensor(&f));
    opt2(l, r)
}
pub fn c03_twist_inv(inp: &PV) -> PV {
    let (a, b) = (sl(&inp.at(0).ts()), sl(&inp.at(1).ts()));
    let l = OH::twist(a.clone(), b.clone()).compose(&OH::twist(b.clone(), a.clone()));
    let r = Some(OH::identity(a.coproduct(&b)));
    let tw = OH::twist(a, b);
    PV::List(vec![pv_opt_oh(l), pv_opt_oh(r), pv_oh(&tw), pv_labels(&tw.source()), pv_labels(&tw.target())])
}
pub fn c03_hexagon(inp: &PV) -> PV {
    let (a, b, c) = (sl(&inp.at(0).ts()), sl(&inp.at(1).ts()), sl(&inp.at(2).ts()));
    let id = |x: &SL| OH::identity(x.clone());
    // σ_{a, b●c} = (σ_{a,b} ⊗ id_c) ; (id_b ⊗ σ_{a,c})
    let l1 = Some(OH::twist(a.clone(), b.coproduct(&c)));
    let r1 = OH::twist(a.clone(), b.clone()).tensor(&id(&c)).compose(&id(&b).tensor(&OH::twist(a.clone(), c.clone())));
    // σ_{a●b, c} = (id_a ⊗ σ_{b,c}) ; (σ_{a,c} ⊗ id_b)
    let l2 = Some(OH::twist(a.coproduct(&b), c.clone()));
    let r2 = id(&a).tensor(&OH::twist(b.clone(), c.clone())).compose(&OH::twist(a.clone(), c.clone()).tensor(&id(&b)));
    PV::List(vec![pv_opt_oh(l1), pv_opt_oh(r1), pv_opt_oh(l2), pv_opt_oh(r2)])
}
pub fn c04_dagger(inp: &PV) -> PV {
    let f = oh(inp.at(0).oh());
    let d = f.dagger();
    PV::List(vec![pv_oh(&d), pv_oh(&d.dagger())])
}
pub fn c04_dagger_tensor(inp: &PV) -> PV {
    let (f, g) = (oh(inp.at(0).oh()), oh(inp.at(1).oh()));
    PV::List(vec![pv_oh(&f.tensor(&g).dagger()), pv_oh(&f.dagger().tensor(&g.dagger()))])
}
pub fn c04_dagger_compose(inp: &PV) -> PV {
    let (f, g) = (oh(inp.at(0).oh()), oh(inp.at(1).oh()));
    opt2(f.compose(&g).map(|x| x.dagger()), g.dagger().compose(&f.dagger()))
}
pub fn c04_spider(inp: &PV) -> PV {
    let (s, t, w) = (ff_raw(inp.at(0).ff()), ff_raw(inp.at(1).ff()), sl(&inp.at(2).ts()));
    let a = OH::spider(s.clone(), t.clone(), w.clone());
    let b = <OH as Spider<K>>::spider(s, t, w);
    PV::List(vec![pv_opt_oh(a), pv_opt_oh(b)])
}
pub fn c04_half_spider(inp: &PV) -> PV {
    let (s, w) = (ff_raw(inp.at(0).ff()), sl(&inp.at(1).ts()));
    let a = <OH as Spider<K>>::half_spider(s.clone(), w.clone());
    let b = OH::spider(s.clone(), FF::identity(s.target()), w);
    PV::List(vec![pv_opt_oh(a), pv_opt_oh(b)])
}
pub fn c04_fusion(inp: &PV) -> PV {
    let a = OH::spider(ff_raw(inp.at(0).ff()), ff_raw(inp.at(1).ff()), sl(&inp.at(2).ts())).expect("gen: well-typed spider");
    let b = OH::spider(ff_raw(inp.at(3).ff()), ff_raw(inp.at(4).ff()), sl(&inp.at(5).ts())).expect("gen: well-typed spider");
    let r = a.compose(&b);
    let disc = r.as_ref().map(|r| r.h.is_discrete());
    PV::List(vec![pv_opt_oh(r), match disc { Some(d) => pv_bool(d), None => PV::None }])
}
pub fn c04_id_twist_spiders(inp: &PV) -> PV {
    let (a, b) = (sl(&inp.at(0).ts()), sl(&inp.at(1).ts()));
    let id = OH::identity(a.clone());
    let n = a.len();
    let id_sp = OH::spider(FF::identity(n.clone()), FF::identity(n), a.clone());
    let tw = OH::twist(a.clone(), b.clone());
    let tw_sp = OH::spider(FF::twist(a.len(), b.len()), FF::identity(a.len() + b.len()), b.coproduct(&a));
    PV::List(vec![pv_oh(&id), pv_opt_oh(id_sp), pv_oh(&tw), pv_opt_oh(tw_sp)])
}

// ------------------------------------------------------------------ C06 (finite functions)
pub fn pv_ff(f: &FF) -> PV {
    PV::FF(rd_ff(f))
}
pub fn pv_opt_ff(f: Option<FF>) -> PV {
    match f {
        None => PV::None,
        Some(f) => PV::Some(Box::new(pv_ff(&f))),
    }
}
fn ki(inp: &PV, i: usize) -> <K as ArrayKind>::I {
    K::mk_i(inp.at(i).t())
}
pub fn c06_compose(inp: &PV) -> PV {
    let (f, g) = (ff_raw(inp.at(0).ff()), ff_raw(inp.at(1).ff()));
    PV::List(vec![pv_opt_ff(f.compose(&g)), pv_opt_ff(&f >> &g)])
}
pub fn c06_basic(inp: &PV) -> PV {
    // inputs: a, b, x scalars
    let (a, b, x) = (ki(inp, 0), ki(inp, 1), ki(inp, 2));
    PV::List(vec![
        pv_ff(&FF::identity(a.clone())),
        pv_ff(&FF::initial(a.clone())),
        pv_ff(&FF::terminal(a.clone())),
        pv_ff(&FF::constant(a.clone(), x.clone(), b.clone())),
        pv_ff(&FF::inj0(a.clone(), b.clone())),
        pv_ff(&FF::inj1(a.clone(), b.clone())),
        pv_ff(&FF::twist(a.clone(), b.clone())),
        PV::T(K::rd_i(&FF::initial_object())),
        PV::T(K::rd_i(&<FF as Monoidal>::unit())),
    ])
}
pub fn c06_transpose(inp: &PV) -> PV {
    let (a, b) = (ki(inp, 0), ki(inp, 1));
    let t = FF::transpose(a.clone(), b.clone());
    let u = FF::transpose(b, a);
    PV::List(vec![pv_ff(&t), pv_opt_ff(t.compose(&u))])
}
pub fn c06_unary(inp: &PV) -> PV {
    // inputs: f, a (scalar), labels (len = f.target concrete case)
    let f = ff_raw(inp.at(0).ff());
    let a = ki(inp, 1);
    PV::List(vec![
        pv_ff(&f.inject0(a.clone())),
        pv_ff(&f.inject1(a.clone())),
        pv_ff(&f.to_initial()),
        pv_ff(&f.cumulative_sum()),
        pv_bool(f.is_injective()),
        PV::T(K::rd_i(&f.source())),
        PV::T(K::rd_i(&f.target())),
        pv_opt_ff(f.compose(&FF::inj0(f.target(), a.clone()))),
        pv_opt_ff(f.compose(&FF::inj1(a.clone(), f.target()))),
    ])
}
pub fn c06_binary(inp: &PV) -> PV {
    let (f, g) = (ff_raw(inp.at(0).ff()), ff_raw(inp.at(1).ff()));
    PV::List(vec![pv_opt_ff(f.coproduct(&g)), pv_opt_ff(&f + &g), pv_ff(&f.tensor(&g)), pv_ff(&(&f | &g)), pv_bool(f == g)])
}
pub fn c06_semifinite(inp: &PV) -> PV {
    let f = ff_raw(inp.at(0).ff());
    let l = sl(&inp.at(1).ts());
    let r = compose_semifinite(&f, &l);
    let r2 = &f >> &l;
    let p = |r: Option<SL>| match r {
        None => PV::None,
        Some(x) => PV::Some(Box::new(pv_labels(&x))),
    };
    PV::List(vec![p(r), p(r2)])
}
pub fn c06_injections(inp: &PV) -> PV {
    let (s, a) = (ff_raw(inp.at(0).ff()), ff_raw(inp.at(1).ff()));
    pv_opt_ff(s.injections(&a))
}
pub fn c06_coequalizer(inp: &PV) -> PV {
    let (f, g) = (ff_raw(inp.at(0).ff()), ff_raw(inp.at(1).ff()));
    pv_opt_ff(f.coequalizer(&g))
}
pub fn c06_universal(inp: &PV) -> PV {
    let (q, f) = (ff_raw(inp.at(0).ff()), ff_raw(inp.at(1).ff()));
    let l = K::mk_ls(&inp.at(2).ts());
    let a = q.coequalizer_universal(&f);
    let b = coequalizer_universal::<K, L>(&q, &l);
    PV::List(vec![
        pv_opt_ff(a),
        match b {
            None => PV::None,
            Some(x) => PV::Some(Box::new(PV::of_ts(&K::rd_ls(&x)))),
        },
    ])
}

// ------------------------------------------------------------------ C08 (segmented arrays)
pub fn pv_icf(c: &ICF) -> PV {
    PV::IC(rd_icf(c))
}
pub fn pv_icl(c: &ICL) -> PV {
    PV::IC(rd_icl(c))
}
fn pv_opt<X>(o: Option<X>, f: impl Fn(&X) -> PV) -> PV {
    match o {
        None => PV::None,
        Some(x) => PV::Some(Box::new(f(&x))),
    }
}
/// checked constructors on raw data: inputs [sizes FF (raw), values FF (raw)]
pub fn c08_new(inp: &PV) -> PV {
    let (src, vals) = (ff_raw(inp.at(0).ff()), ff_raw(inp.at(1).ff()));
    let a = IndexedCoproduct::new(src.clone(), vals.clone());
    let b = IndexedCoproduct::from_semifinite(SemifiniteFunction(src.table.clone().into()), vals.clone());
    let c = IndexedCoproduct::from_semifinite(SemifiniteFunction(src.table.clone().into()), sl(&inp.at(2).ts()));
    PV::List(vec![pv_opt(a, pv_icf), pv_opt(b, pv_icf), pv_opt(c, pv_icl)])
}
pub fn c08_ctor(inp: &PV) -> PV {
    let vals = ff_raw(inp.at(0).ff());
    let labels = sl(&inp.at(1).ts());
    let t = ki(inp, 2);
    PV::List(vec![
        pv_icf(&ICF::singleton(vals.clone())),
        pv_icf(&ICF::elements(vals.clone())),
        pv_icf(&ICF::initial(t)),
        pv_icl(&ICL::singleton(labels.clone())),
        pv_icl(&ICL::elements(labels)),
    ])
}
pub fn c08_binary(inp: &PV) -> PV {
    let (a, b) = (icf(inp.at(0).ic()), icf(inp.at(1).ic()));
    let (la, lb) = (icl(inp.at(2).ic()), icl(inp.at(3).ic()));
    PV::List(vec![pv_opt(a.coproduct(&b), pv_icf), pv_icf(&a.tensor(&b)), pv_opt(la.coproduct(&lb), pv_icl), PV::T(K::rd_i(&a.len())), pv_bool(a == b)])
}
pub fn c08_reindex(inp: &PV) -> PV {
    let (a, la) = (icf(inp.at(0).ic()), icl(inp.at(1).ic()));
    let x = ff_raw(inp.at(2).ff());
    PV::List(vec![
        pv_opt(a.map_indexes(&x), pv_icf),
        pv_opt(a.indexed_values(&x), pv_ff),
        pv_opt(la.map_indexes(&x), pv_icl),
        pv_opt(la.indexed_values(&x), |l| pv_labels(l)),
    ])
}
pub fn c08_mapvals(inp: &PV) -> PV {
    let a = icf(inp.at(0).ic());
    let f = ff_raw(inp.at(1).ff());
    let l = sl(&inp.at(2).ts());
    PV::List(vec![pv_opt(a.map_values(&f), pv_icf), pv_opt(a.map_semifinite(&l), pv_icl)])
}
pub fn c08_flatmap(inp: &PV) -> PV {
    let (a, b) = (icf(inp.at(0).ic()), icf(inp.at(1).ic()));
    pv_icf(&a.flatmap(&b))
}
pub fn c08_flatmap_sources(inp: &PV) -> PV {
    let (a, b, lb) = (icf(inp.at(0).ic()), icf(inp.at(1).ic()), icl(inp.at(2).ic()));
    PV::List(vec![pv_icf(&a.flatmap_sources(&b)), pv_icl(&a.flatmap_sources(&lb))])
}
pub fn c08_iter(inp: &PV) -> PV {
    let (a, la) = (icf(inp.at(0).ic()), icl(inp.at(1).ic()));
    let usz = |n: usize| PV::T(tm::c(n as u64, crate::explore::iw()));
    let mut out = vec![];
    {
        let mut it = a.into_iter();
        let mut items = vec![];
        let mut lens = vec![];
        loop {
            let (lo, hi) = it.size_hint();
            lens.push(PV::List(vec![usz(it.len()), usz(lo), match hi { Some(h) => usz(h), None => PV::None }]));
            match it.next() {
                Some(x) => items.push(pv_ff(&x)),
                None => break,
            }
            if items.len() > 16 {
                break;
            }
        }
        out.push(PV::List(items));
        out.push(PV::List(lens));
    }
    {
        let mut it = la.into_iter();
        let mut items = vec![];
        let mut lens = vec![];
        loop {
            let (lo, hi) = it.size_hint();
            lens.push(PV::List(vec![usz(it.len()), usz(lo), match hi { Some(h) => usz(h), None => PV::None }]));
            match it.next() {
                Some(x) => items.push(pv_labels(&x)),
                None => break,
            }
            if items.len() > 16 {
                break;
            }
        }
        out.push(PV::List(items));
        out.push(PV::List(lens));
    }
    PV::List(out)
}

// ------------------------------------------------------------------ C16 (evaluation)
pub type SV = SemifiniteFunction<K, V>;
pub type ICV = IndexedCoproduct<K, SemifiniteFunction<K, V>>;
/// test signature: kind id -> (sources, targets)
pub fn sig_arity(kind: u64) -> (usize, usize) {
    match kind {
        0 => (2, 1), // add
        1 => (2, 1), // sub (order-sensitive)
        2 => (2, 1), // and
        3 => (2, 1), // xor
        4 => (1, 1), // neg
        5 => (1, 2), // copy
        6 => (0, 1), // const 5
        7 => (1, 0), // discard
        8 => (2, 1), // mul
        9 => (0, 2),  // two constants
        10 => (2, 0), // discard two
        _ => panic!("ENGINE-ERROR: unknown operation kind {}", kind),
    }
}
/// interpretation of one operation on value terms (constant-folds at the native backend)
pub fn sig_apply(kind: u64, xs: &[T]) -> Vec<T> {
    let vw = crate::explore::vw();
    match kind {
        0 => vec![tm::add(xs[0], xs[1])],
        1 => vec![tm::sub(xs[0], xs[1])],
        2 => vec![tm::band(xs[0], xs[1])],
        3 => vec![tm::bxor(xs[0], xs[1])],
        4 => vec![tm::sub(tm::c(0, vw), xs[0])],
        5 => vec![xs[0], xs[0]],
        6 => vec![tm::c(5, vw)],
        7 => vec![],
        8 => vec![tm::mul(xs[0], xs[1])],
        9 => vec![tm::c(3, vw), tm::c(9, vw)],
        10 => vec![],
        _ => panic!("ENGINE-ERROR: unknown operation kind {}", kind),
    }
}
thread_local! {
    pub static APPLY_LOG: std::cell::RefCell<Vec<u64>> = std::cell::RefCell::new(vec![]);
}
/// the user-supplied interpreter handed to `eval`
pub fn sig_interpreter(labels: SL, inputs: ICV) -> ICV {
    let labs: Vec<u64> = K::rd_ls(&labels.0).iter().map(|t| K::conc_l(&K::mk_l(*t))).collect();
    let sizes: Vec<usize> = K::rd_ix(&inputs.sources.table).iter().map(|t| K::usize_of(&K::mk_i(*t))).collect();
    let vals = K::rd_vs(&inputs.values.0);
    assert_eq!(labs.len(), sizes.len(), "interpreter: one input list per operation label");
    let mut p = 0;
    let mut out_sizes = vec![];
    let mut out_vals = vec![];
    for (k, sz) in labs.iter().zip(sizes.iter()) {
        let (a, b) = sig_arity(*k);
        assert_eq!(a, *sz, "interpreter: operation {} applied to {} inputs", k, sz);
        let ys = sig_apply(*k, &vals[p..p + sz]);
        assert_eq!(ys.len(), b);
        p += sz;
        out_sizes.push(tm::c(b as u64, crate::explore::iw()));
        out_vals.extend(ys);
        APPLY_LOG.with(|l| l.borrow_mut().push(*k));
    }
    IndexedCoproduct::from_semifinite(SemifiniteFunction(K::mk_ix(&out_sizes).into()), SemifiniteFunction(K::mk_vs(&out_vals))).expect("interpreter output")
}
pub fn c16_eval(inp: &PV) -> PV {
    let f = oh(inp.at(0).oh());
    let s = K::mk_vs(&inp.at(1).ts());
    APPLY_LOG.with(|l| l.borrow_mut().clear());
    let r = open_hypergraphs::strict::eval::eval::<K, L, L, V>(&f, s, sig_interpreter);
    let log: Vec<u64> = APPLY_LOG.with(|l| l.borrow().clone());
    let iw = crate::explore::iw();
    PV::List(vec![
        match r {
            None => PV::None,
            Some(v) => PV::Some(Box::new(PV::of_ts(&K::rd_vs(&v)))),
        },
        PV::List(log.iter().map(|k| PV::T(tm::c(*k, iw))).collect()),
    ])
}

// ------------------------------------------------------------------ C18 (hypergraph morphisms)
pub fn c18_arrow(inp: &PV) -> PV {
    let (g, h) = (hg(inp.at(0).h()), hg(inp.at(1).h()));
    let (w, x) = (ff_raw(inp.at(2).ff()), ff_raw(inp.at(3).ff()));
    use open_hypergraphs::strict::hypergraph::arrow::{HypergraphArrow, InvalidHypergraphArrow::*};
    match HypergraphArrow::new(g, h, w, x) {
        Err(e) => PV::Tag(
            match e {
                TypeMismatchW => "TypeMismatchW",
                TypeMismatchX => "TypeMismatchX",
                NotNaturalW => "NotNaturalW",
                NotNaturalX => "NotNaturalX",
                NotNaturalS => "NotNaturalS",
                NotNaturalT => "NotNaturalT",
            }
            .into(),
            vec![],
        ),
        Ok(a) => {
            let again = a.clone().validate().is_ok();
            PV::Tag("Ok".into(), vec![pv_bool(a.is_monomorphism()), pv_bool(a.is_convex_subgraph()), pv_bool(again)])
        }
    }
}

// ------------------------------------------------------------------ C12 (functors)
use open_hypergraphs::strict::functor::identity::Identity as StrictIdentity;
use open_hypergraphs::strict::functor::{define_map_arrow, Functor};

pub fn mk_icl(sizes: &[usize], vals: &[T]) -> ICL {
    let sz: Vec<T> = sizes.iter().map(|s| tm::c(*s as u64, crate::explore::iw())).collect();
    IndexedCoproduct::from_semifinite(SemifiniteFunction(K::mk_ix(&sz).into()), sl(vals)).expect("harness functor: sizes sum to value length")
}
/// decode a segmented label array into concrete segment sizes and value terms
pub fn dec_icl(c: &ICL) -> (Vec<usize>, Vec<T>) {
    (K::rd_ix(&c.sources.table).iter().map(|t| K::usize_of(&K::mk_i(*t))).collect(), K::rd_ls(&c.values.0))
}
/// the object map of the harness functor families, on one label
pub fn fam_obj(fam: u64, l: T) -> Vec<T> {
    match fam {
        0 | 4 | 5 | 6 => vec![l],
        1 => vec![l, l],
        2 => vec![],
        3 => {
            // label-dependent length: 0 for label 0, 1 for label 1, 2 otherwise
            let lab = K::mk_l(l);
            if lab == K::mk_l(crate::plain::cl(0)) {
                vec![]
            } else if lab == K::mk_l(crate::plain::cl(1)) {
                vec![l]
            } else {
                vec![l, l]
            }
        }
        _ => panic!("ENGINE-ERROR: unknown functor family"),
    }
}
fn fam_expand(fam: u64, c: &ICL) -> ICL {
    let (sizes, vals) = dec_icl(c);
    let mut p = 0;
    let mut nsz = vec![];
    let mut nv = vec![];
    for s in sizes {
        let mut k = 0;
        for v in &vals[p..p + s] {
            let e = fam_obj(fam, *v);
            k += e.len();
            nv.extend(e);
        }
        p += s;
        nsz.push(k);
    }
    mk_icl(&nsz, &nv)
}
pub struct Fam(pub u64);
impl Functor<K, L, L, L, L> for Fam {
    fn map_object(&self, a: &SL) -> ICL {
        let ls = K::rd_ls(&a.0);
        let mut sizes = vec![];
        let mut vals = vec![];
        for l in ls {
            let e = fam_obj(self.0, l);
            sizes.push(e.len());
            vals.extend(e);
        }
        mk_icl(&sizes, &vals)
    }
    fn map_operations(&self, ops: Operations<K, L, L>) -> OH {
        let a = fam_expand(self.0, &ops.a);
        let b = fam_expand(self.0, &ops.b);
        match self.0 {
            // one operation per operation, on the expanded types
            0 | 1 | 2 | 3 => OpenHypergraph::tensor_operations(Operations::new(ops.x.clone(), a, b).expect("harness functor: operations")),
            // composite image: x : a -> b followed by x : b -> b
            4 => {
                let first = OpenHypergraph::tensor_operations(Operations::new(ops.x.clone(), a, b.clone()).expect("ops"));
                let second = OpenHypergraph::tensor_operations(Operations::new(ops.x.clone(), b.clone(), b).expect("ops"));
                first.compose(&second).expect("harness functor: composite image is well typed")
            }
            // spider-only image: discard the inputs, create the outputs
            5 => {
                let (na, nb) = (a.values.len(), b.values.len());
                OpenHypergraph::spider(FF::inj0(na.clone(), nb.clone()), FF::inj1(na, nb), a.values.coproduct(&b.values)).expect("harness functor: spider image")
            }
            _ => panic!("ENGINE-ERROR: unknown functor family"),
        }
    }
    fn map_arrow(&self, f: &OH) -> OH {
        define_map_arrow(self, f)
    }
}
fn fam_map(fam: u64, f: &OH) -> OH {
    if fam == 0 {
        <StrictIdentity as Functor<K, L, L, L, L>>::map_arrow(&StrictIdentity, f)
    } else {
        Fam(fam).map_arrow(f)
    }
}
pub fn c12_map(inp: &PV) -> PV {
    let f = oh(inp.at(0).oh());
    let fam = tm::as_const(inp.at(1).t()).expect("family is concrete");
    let r = fam_map(fam, &f);
    PV::List(vec![pv_oh(&r), pv_labels(&r.source()), pv_labels(&r.target())])
}
/// preservation of the categorical structure: [F(f;g), F(f);F(g), F(f⊗g), F(f)⊗F(g), F(f†), F(f)†, F(id_A), id_{F A}, F(σ), σ_F]
pub fn c12_preserve(inp: &PV) -> PV {
    let (f, g) = (oh(inp.at(0).oh()), oh(inp.at(1).oh()));
    let fam = tm::as_const(inp.at(2).t()).expect("family is concrete");
    let m = |x: &OH| fam_map(fam, x);
    let fobj = |a: &SL| -> SL {
        if fam == 0 {
            a.clone()
        } else {
            Fam(fam).map_object(a).values
        }
    };
    let comp = f.compose(&g);
    let (a, b) = (f.source(), g.target());
    PV::List(vec![
        pv_opt_oh(comp.as_ref().map(|c| m(c))),
        pv_opt_oh(m(&f).compose(&m(&g))),
        pv_oh(&m(&f.tensor(&g))),
        pv_oh(&m(&f).tensor(&m(&g))),
        pv_oh(&m(&f.dagger())),
        pv_oh(&m(&f).dagger()),
        pv_oh(&m(&OH::identity(a.clone()))),
        pv_oh(&OH::identity(fobj(&a))),
        pv_oh(&m(&OH::twist(a.clone(), b.clone()))),
        pv_oh(&OH::twist(fobj(&a), fobj(&b))),
    ])
}

// ------------------------------------------------------------------ C14 (optics)
use open_hypergraphs::strict::functor::optic::Optic;
/// forward part of a lens-shaped optic: x : a -> b  |->  x : F(a) -> F(b) ● m_x, residual m_x = [x; r]
pub struct LensFwd {
    pub fam: u64,
    pub r: usize,
}
/// reverse part: x : a -> b  |->  x : m_x ● R(b) -> R(a)
pub struct LensRev {
    pub fam: u64,
    pub r: usize,
}
fn per_op(c: &ICL) -> Vec<Vec<T>> {
    let (sizes, vals) = dec_icl(c);
    let mut out = vec![];
    let mut p = 0;
    for s in sizes {
        out.push(vals[p..p + s].to_vec());
        p += s;
    }
    out
}
fn of_lists(ls: &[Vec<T>]) -> ICL {
    let sizes: Vec<usize> = ls.iter().map(|l| l.len()).collect();
    let vals: Vec<T> = ls.iter().flatten().cloned().collect();
    mk_icl(&sizes, &vals)
}
fn lens_obj(fam: u64, a: &SL) -> ICL {
    let ls = K::rd_ls(&a.0);
    of_lists(&ls.iter().map(|l| fam_obj(fam, *l)).collect::<Vec<_>>())
}
pub fn lens_residual(ops: &Operations<K, L, L>, r: usize) -> ICL {
    let xs = K::rd_ls(&ops.x.0);
    of_lists(&xs.iter().map(|x| vec![*x; r]).collect::<Vec<_>>())
}
impl Functor<K, L, L, L, L> for LensFwd {
    fn map_object(&self, a: &SL) -> ICL {
        lens_obj(self.fam, a)
    }
    fn map_operations(&self, ops: Operations<K, L, L>) -> OH {
        let xs = K::rd_ls(&ops.x.0);
        let a: Vec<Vec<T>> = per_op(&ops.a).iter().map(|l| l.iter().flat_map(|v| fam_obj(self.fam, *v)).collect()).collect();
        let b: Vec<Vec<T>> = per_op(&ops.b).iter().zip(xs.iter()).map(|(l, x)| l.iter().flat_map(|v| fam_obj(self.fam, *v)).chain(std::iter::repeat(*x).take(self.r)).collect()).collect();
        OpenHypergraph::tensor_operations(Operations::new(ops.x.clone(), of_lists(&a), of_lists(&b)).expect("lens fwd"))
    }
    fn map_arrow(&self, f: &OH) -> OH {
        define_map_arrow(self, f)
    }
}
impl Functor<K, L, L, L, L> for LensRev {
    fn map_object(&self, a: &SL) -> ICL {
        lens_obj(self.fam, a)
    }
    fn map_operations(&self, ops: Operations<K, L, L>) -> OH {
        let xs = K::rd_ls(&ops.x.0);
        let src: Vec<Vec<T>> = per_op(&ops.b).iter().zip(xs.iter()).map(|(l, x)| std::iter::repeat(*x).take(self.r).chain(l.iter().flat_map(|v| fam_obj(self.fam, *v))).collect()).collect();
        let tgt: Vec<Vec<T>> = per_op(&ops.a).iter().map(|l| l.iter().flat_map(|v| fam_obj(self.fam, *v)).collect()).collect();
        OpenHypergraph::tensor_operations(Operations::new(ops.x.clone(), of_lists(&src), of_lists(&tgt)).expect("lens rev"))
    }
    fn map_arrow(&self, f: &OH) -> OH {
        define_map_arrow(self, f)
    }
}
pub fn lens_optic(ff: u64, rf: u64, r: usize) -> Optic<LensFwd, LensRev, K, L, L, L, L> {
    Optic::new(LensFwd { fam: ff, r }, LensRev { fam: rf, r }, Box::new(move |ops: &Operations<K, L, L>| lens_residual(ops, r)))
}
fn lens_params(inp: &PV, i: usize) -> (u64, u64, usize) {
    let k = |j: usize| tm::as_const(inp.at(i + j).t()).expect("optic parameters are concrete");
    (k(0), k(1), k(2) as usize)
}
pub fn c14_map(inp: &PV) -> PV {
    let f = oh(inp.at(0).oh());
    let (ff, rf, r) = lens_params(inp, 1);
    let o = lens_optic(ff, rf, r);
    let c = o.map_arrow(&f);
    let d = o.adapt(&c, &f.source(), &f.target());
    PV::List(vec![pv_oh(&c), pv_labels(&c.source()), pv_labels(&c.target()), pv_oh(&d), pv_labels(&d.source()), pv_labels(&d.target()), pv_bool(d.is_monogamous())])
}
pub fn c14_functorial(inp: &PV) -> PV {
    let (f, g) = (oh(inp.at(0).oh()), oh(inp.at(1).oh()));
    let (ff, rf, r) = lens_params(inp, 2);
    let o = lens_optic(ff, rf, r);
    let comp = f.compose(&g);
    PV::List(vec![
        pv_opt_oh(comp.as_ref().map(|c| o.map_arrow(c))),
        pv_opt_oh(o.map_arrow(&f).compose(&o.map_arrow(&g))),
        pv_oh(&o.map_arrow(&f.tensor(&g))),
        pv_oh(&o.map_arrow(&f).tensor(&o.map_arrow(&g))),
    ])
}

// ------------------------------------------------------------------ C05 (well-formedness, typing, checked constructors)
pub fn c05_ff_new(inp: &PV) -> PV {
    let f = inp.at(0).ff();
    pv_opt_ff(FiniteFunction::new(K::mk_ix(&f.table), K::mk_i(f.target)))
}
pub fn c05_ic_new(inp: &PV) -> PV {
    let (src, vals) = (ff_raw(inp.at(0).ff()), ff_raw(inp.at(1).ff()));
    pv_opt(IndexedCoproduct::new(src, vals), pv_icf)
}
pub fn c05_ic_from_semifinite(inp: &PV) -> PV {
    let (src, vals) = (ff_raw(inp.at(0).ff()), ff_raw(inp.at(1).ff()));
    pv_opt(IndexedCoproduct::from_semifinite(SemifiniteFunction(src.table.clone().into()), vals), pv_icf)
}
pub fn c05_operations_new(inp: &PV) -> PV {
    let x = sl(&inp.at(0).ts());
    let (a, b) = (icl(inp.at(1).ic()), icl(inp.at(2).ic()));
    match Operations::new(x, a, b) {
        None => PV::None,
        Some(o) => PV::Some(Box::new(PV::List(vec![pv_labels(&o.x), pv_icl(&o.a), pv_icl(&o.b), PV::T(K::rd_i(&o.len()))]))),
    }
}
/// segmented array of finite functions whose value codomain is given (not necessarily the node count)
fn icf_any(r: &RawIC) -> ICF {
    icf(r)
}
pub fn c05_hypergraph_new(inp: &PV) -> PV {
    let (s, t) = (icf_any(inp.at(0).ic()), icf_any(inp.at(1).ic()));
    let (w, x) = (sl(&inp.at(2).ts()), sl(&inp.at(3).ts()));
    let tag = |e: &InvalidHypergraph<K>| match e {
        InvalidHypergraph::SourcesCount(a, b) => PV::Tag("SourcesCount".into(), vec![PV::T(K::rd_i(a)), PV::T(K::rd_i(b))]),
        InvalidHypergraph::TargetsCount(a, b) => PV::Tag("TargetsCount".into(), vec![PV::T(K::rd_i(a)), PV::T(K::rd_i(b))]),
        InvalidHypergraph::SourcesSet(a, b) => PV::Tag("SourcesSet".into(), vec![PV::T(K::rd_i(a)), PV::T(K::rd_i(b))]),
        InvalidHypergraph::TargetsSet(a, b) => PV::Tag("TargetsSet".into(), vec![PV::T(K::rd_i(a)), PV::T(K::rd_i(b))]),
    };
    let (sf, tf) = (ff_raw(inp.at(4).ff()), ff_raw(inp.at(5).ff()));
    match Hypergraph::new(s.clone(), t.clone(), w.clone(), x.clone()) {
        Err(e) => {
            // the open-hypergraph constructor must reject it too, for the same reason
            let o = match OpenHypergraph::new(sf, tf, Hypergraph { s, t, w, x }) {
                Err(InvalidOpenHypergraph::InvalidHypergraph(e2)) => tag(&e2),
                Err(_) => PV::Tag("OtherErr".into(), vec![]),
                Ok(_) => PV::Tag("Ok".into(), vec![]),
            };
            PV::List(vec![tag(&e), o])
        }
        Ok(h) => {
            let o = match OpenHypergraph::new(sf, tf, h.clone()) {
                Ok(f) => PV::Tag("Ok".into(), vec![pv_oh(&f)]),
                Err(InvalidOpenHypergraph::CospanSourceType(a, b)) => PV::Tag("CospanSourceType".into(), vec![PV::T(K::rd_i(&a)), PV::T(K::rd_i(&b))]),
                Err(InvalidOpenHypergraph::CospanTargetType(a, b)) => PV::Tag("CospanTargetType".into(), vec![PV::T(K::rd_i(&a)), PV::T(K::rd_i(&b))]),
                Err(InvalidOpenHypergraph::InvalidHypergraph(e2)) => tag(&e2),
            };
            PV::List(vec![PV::Tag("Ok".into(), vec![PV::H(rd_h(&h))]), o])
        }
    }
}
pub fn c05_constructors(inp: &PV) -> PV {
    // inputs: x label, a labels, b labels, operations batch (x, a, b), w labels
    let x = K::mk_l(inp.at(0).t());
    let (a, b) = (sl(&inp.at(1).ts()), sl(&inp.at(2).ts()));
    let single = OH::singleton(x, a.clone(), b.clone());
    let ops = Operations::new(sl(&inp.at(3).ts()), icl(inp.at(4).ic()), icl(inp.at(5).ic())).expect("gen: operations batch");
    let batch = OH::tensor_operations(ops.clone());
    let hb = H::tensor_operations(ops);
    let w = sl(&inp.at(6).ts());
    let id = OH::identity(w.clone());
    let disc: H = Hypergraph::discrete(w.clone());
    let empty: H = Hypergraph::empty();
    let t = |f: &OH| PV::List(vec![pv_oh(f), pv_labels(&f.source()), pv_labels(&f.target())]);
    PV::List(vec![t(&single), t(&batch), PV::H(rd_h(&hb)), t(&id), PV::H(rd_h(&disc)), PV::H(rd_h(&empty)), pv_bool(disc.is_discrete()), pv_bool(hb.is_discrete())])
}
pub fn c05_types(inp: &PV) -> PV {
    let (f, g) = (oh(inp.at(0).oh()), oh(inp.at(1).oh()));
    let t = |f: &OH| PV::List(vec![pv_oh(f), pv_labels(&f.source()), pv_labels(&f.target())]);
    let comp = match f.compose(&g) {
        None => PV::None,
        Some(c) => PV::Some(Box::new(t(&c))),
    };
    PV::List(vec![comp, t(&f.tensor(&g)), t(&f.dagger()), t(&OH::twist(f.source(), g.target()))])
}
pub fn c05_coequalize_vertices(inp: &PV) -> PV {
    let h = hg(inp.at(0).h());
    let q = ff_raw(inp.at(1).ff());
    match h.coequalize_vertices(&q) {
        None => PV::None,
        Some(r) => PV::Some(Box::new(PV::H(rd_h(&r)))),
    }
}

// ------------------------------------------------------------------ lax diagrams (concrete identifiers, label type L)
use open_hypergraphs::lax;
pub type LOH = lax::OpenHypergraph<L, L>;
fn nid(t: T) -> lax::NodeId {
    lax::NodeId(RawLax::id(t))
}
fn tid(n: &lax::NodeId) -> T {
    tm::c(n.0 as u64, crate::explore::iw())
}
pub fn lax_build(r: &RawLax) -> LOH {
    LOH {
        sources: r.s.iter().map(|t| nid(*t)).collect(),
        targets: r.t.iter().map(|t| nid(*t)).collect(),
        hypergraph: lax::Hypergraph {
            nodes: r.nodes.iter().map(|t| K::mk_l(*t)).collect(),
            edges: r.edges.iter().map(|t| K::mk_l(*t)).collect(),
            adjacency: r.adj.iter().map(|(a, b)| lax::Hyperedge { sources: a.iter().map(|t| nid(*t)).collect(), targets: b.iter().map(|t| nid(*t)).collect() }).collect(),
            quotient: (r.quot.iter().map(|(a, _)| nid(*a)).collect(), r.quot.iter().map(|(_, b)| nid(*b)).collect()),
        },
    }
}
pub fn lax_read(f: &LOH) -> RawLax {
    RawLax {
        nodes: f.hypergraph.nodes.iter().map(|l| K::rd_l(l)).collect(),
        edges: f.hypergraph.edges.iter().map(|l| K::rd_l(l)).collect(),
        adj: f.hypergraph.adjacency.iter().map(|e| (e.sources.iter().map(tid).collect(), e.targets.iter().map(tid).collect())).collect(),
        quot: f.hypergraph.quotient.0.iter().zip(f.hypergraph.quotient.1.iter()).map(|(a, b)| (tid(a), tid(b))).collect(),
        s: f.sources.iter().map(tid).collect(),
        t: f.targets.iter().map(tid).collect(),
    }
}
pub fn pv_lax(f: &LOH) -> PV {
    PV::Lax(lax_read(f))
}
/// strict diagrams over the real Vec backend with label type L (symbolic labels at `sym`)
pub type VK = open_hypergraphs::array::vec::VecKind;
pub type VOH = OpenHypergraph<VK, L, L>;
pub fn rd_voh(f: &VOH) -> RawOH {
    let iw = crate::explore::iw();
    let ix = |a: &open_hypergraphs::array::vec::VecArray<usize>| a.0.iter().map(|v| tm::c(*v as u64, iw)).collect::<Vec<T>>();
    let ic = |c: &IndexedCoproduct<VK, FiniteFunction<VK>>| RawIC { sizes: ix(&c.sources.table), sizes_target: tm::c(c.sources.target as u64, iw), vals: ix(&c.values.table), vals_target: tm::c(c.values.target as u64, iw) };
    RawOH {
        s: RawFF { table: ix(&f.s.table), target: tm::c(f.s.target as u64, iw) },
        t: RawFF { table: ix(&f.t.table), target: tm::c(f.t.target as u64, iw) },
        h: RawH { s: ic(&f.h.s), t: ic(&f.h.t), w: f.h.w.0 .0.iter().map(|l| K::rd_l(l)).collect(), x: f.h.x.0 .0.iter().map(|l| K::rd_l(l)).collect() },
    }
}
pub fn pv_voh(f: &VOH) -> PV {
    PV::OH(rd_voh(f))
}

// ------------------------------------------------------------------ C09 (quotient)
pub fn c09_quotient(inp: &PV) -> PV {
    let mut f = lax_build(inp.at(0).lax());
    let r1 = f.quotient();
    let after1 = lax_read(&f);
    let tag = |r: &Result<FiniteFunction<VK>, FiniteFunction<VK>>| {
        let (name, q) = match r {
            Ok(q) => ("Ok", q),
            Err(q) => ("Err", q),
        };
        let iw = crate::explore::iw();
        PV::Tag(name.into(), vec![PV::of_ts(&q.table.0.iter().map(|v| tm::c(*v as u64, iw)).collect::<Vec<T>>()), PV::T(tm::c(q.target as u64, iw))])
    };
    let t1 = tag(&r1);
    // quotienting again changes nothing
    let r2 = f.quotient();
    let after2 = lax_read(&f);
    // the deprecated alias must behave exactly like quotient()
    let mut fa = lax_build(inp.at(0).lax());
    #[allow(deprecated)]
    let ra = fa.quotient_witness();
    let alias = PV::List(vec![tag(&ra), pv_lax(&fa)]);
    // the plain-hypergraph entry point
    let mut h = lax_build(inp.at(0).lax()).hypergraph;
    let r3 = h.quotient();
    let hr = lax_read(&LOH { sources: vec![], targets: vec![], hypergraph: h });
    PV::List(vec![t1, PV::Lax(after1), tag(&r2), PV::Lax(after2), tag(&r3), PV::Lax(hr), alias])
}

// ------------------------------------------------------------------ lax category structure (C02 / C04 / C10)
fn pv_opt_lax(o: Option<LOH>) -> PV {
    match o {
        None => PV::None,
        Some(f) => PV::Some(Box::new(pv_lax(&f))),
    }
}
/// strict diagram over VecKind built through the checked constructors from quotient-free raw data (independent of lax code)
pub fn voh_build(r: &RawLax) -> VOH {
    use open_hypergraphs::array::vec::VecArray;
    assert!(r.quot.is_empty());
    let n = r.nodes.len();
    let ix = |ts: &[T]| VecArray(ts.iter().map(|t| RawLax::id(*t)).collect::<Vec<usize>>());
    let ic = |sel: &dyn Fn(&(Vec<T>, Vec<T>)) -> Vec<T>| {
        let lists: Vec<Vec<T>> = r.adj.iter().map(|e| sel(e)).collect();
        let sizes = VecArray(lists.iter().map(|l| l.len()).collect::<Vec<usize>>());
        let vals: Vec<T> = lists.into_iter().flatten().collect();
        IndexedCoproduct::from_semifinite(SemifiniteFunction(sizes), FiniteFunction::<VK>::new(ix(&vals), n).expect("gen: in range")).expect("gen")
    };
    let h = Hypergraph::<VK, L, L>::new(
        ic(&|e| e.0.clone()),
        ic(&|e| e.1.clone()),
        SemifiniteFunction(VecArray(r.nodes.iter().map(|t| K::mk_l(*t)).collect())),
        SemifiniteFunction(VecArray(r.edges.iter().map(|t| K::mk_l(*t)).collect())),
    )
    .expect("gen");
    OpenHypergraph::new(FiniteFunction::new(ix(&r.s), n).expect("gen"), FiniteFunction::new(ix(&r.t), n).expect("gen"), h).expect("gen")
}
pub fn lax_tensor(inp: &PV) -> PV {
    let (f, g) = (lax_build(inp.at(0).lax()), lax_build(inp.at(1).lax()));
    let a = f.tensor(&g);
    let b = <LOH as Monoidal>::tensor(&f, &g);
    let c = &f | &g;
    // in-place forms
    let mut d = f.clone();
    d.tensor_assign(g.clone());
    let mut e = f.clone();
    let (es, et) = e.append(g.clone());
    let mut hh = f.hypergraph.clone();
    hh.coproduct_assign(g.hypergraph.clone());
    let ids = |v: &Vec<lax::NodeId>| PV::of_ts(&v.iter().map(tid).collect::<Vec<T>>());
    PV::List(vec![pv_lax(&a), pv_lax(&b), pv_lax(&c), pv_lax(&d), pv_lax(&e), ids(&es), ids(&et), pv_lax(&LOH { sources: vec![], targets: vec![], hypergraph: hh })])
}
pub fn lax_tensor3(inp: &PV) -> PV {
    let (f, g, h) = (lax_build(inp.at(0).lax()), lax_build(inp.at(1).lax()), lax_build(inp.at(2).lax()));
    let u = LOH::empty();
    PV::List(vec![pv_lax(&f.tensor(&g).tensor(&h)), pv_lax(&f.tensor(&g.tensor(&h))), pv_lax(&f.tensor(&u)), pv_lax(&u.tensor(&f)), PV::of_ts(&<LOH as Monoidal>::unit().iter().map(|l| K::rd_l(l)).collect::<Vec<T>>())])
}
pub fn lax_compose(inp: &PV) -> PV {
    let (f, g) = (lax_build(inp.at(0).lax()), lax_build(inp.at(1).lax()));
    let checked = <LOH as Arrow>::compose(&f, &g);
    let sugar = &f >> &g;
    let unchecked = f.lax_compose(&g);
    PV::List(vec![pv_opt_lax(checked), pv_opt_lax(sugar), pv_opt_lax(unchecked)])
}
/// to_strict of a lax diagram (panics on a label conflict)
pub fn lax_to_strict(inp: &PV) -> PV {
    let f = lax_build(inp.at(0).lax());
    let r = f.clone().to_strict();
    // the deprecated name is the same conversion
    #[allow(deprecated)]
    let old = f.to_open_hypergraph();
    assert!(rd_voh(&r) == rd_voh(&old), "to_open_hypergraph differs from to_strict");
    pv_voh(&r)
}
pub fn lax_roundtrip(inp: &PV) -> PV {
    let r = inp.at(0).lax();
    let f = lax_build(r);
    // lax -> strict -> lax on a quotient-free diagram
    let back = LOH::from_strict(f.clone().to_strict());
    // strict -> lax -> strict on a strict diagram built independently through the checked constructors
    let g = voh_build(r);
    let via = LOH::from_strict(g.clone());
    let again = via.clone().to_strict();
    PV::List(vec![pv_lax(&back), pv_lax(&via), pv_voh(&again), pv_voh(&g), pv_bool(f.hypergraph.is_strict())])
}
/// strictification commutes with the categorical operations: both sides computed by the real code
pub fn lax_commute(inp: &PV) -> PV {
    let (f, g) = (lax_build(inp.at(0).lax()), lax_build(inp.at(1).lax()));
    let (sf, sg) = (f.clone().to_strict(), g.clone().to_strict());
    let comp = <LOH as Arrow>::compose(&f, &g).map(|c| c.to_strict());
    let scomp = sf.compose(&sg);
    let ten = f.tensor(&g).to_strict();
    let sten = sf.tensor(&sg);
    let dag = f.dagger().to_strict();
    let sdag = sf.dagger();
    let o = |x: Option<VOH>| match x {
        None => PV::None,
        Some(v) => PV::Some(Box::new(pv_voh(&v))),
    };
    PV::List(vec![o(comp), o(scomp), pv_voh(&ten), pv_voh(&sten), pv_voh(&dag), pv_voh(&sdag), pv_lax(&f.dagger()), pv_lax(&f.dagger().dagger())])
}
pub fn lax_constructors(inp: &PV) -> PV {
    // inputs: a labels, b labels, x label, s (raw ff), t (raw ff), w labels
    let (a, b) = (inp.at(0).ts(), inp.at(1).ts());
    let ls = |ts: &[T]| ts.iter().map(|t| K::mk_l(*t)).collect::<Vec<L>>();
    let id = LOH::identity(ls(&a));
    let id2 = <LOH as Arrow>::identity(ls(&a));
    let tw = <LOH as SymmetricMonoidal>::twist(ls(&a), ls(&b));
    let single = LOH::singleton(K::mk_l(inp.at(2).t()), ls(&a), ls(&b));
    let mk = |r: &RawFF| FiniteFunction::<VK> { table: open_hypergraphs::array::vec::VecArray(r.table.iter().map(|t| RawLax::id(*t)).collect()), target: RawLax::id(r.target) };
    let (s, t, w) = (mk(inp.at(3).ff()), mk(inp.at(4).ff()), inp.at(5).ts());
    let sp = LOH::spider(s.clone(), t.clone(), ls(&w));
    let sp2 = <LOH as Spider<VK>>::spider(s.clone(), t.clone(), ls(&w));
    let hs = <LOH as Spider<VK>>::half_spider(s.clone(), ls(&w));
    let src = |f: &LOH| PV::of_ts(&<LOH as Arrow>::source(f).iter().map(|l| K::rd_l(l)).collect::<Vec<T>>());
    let tgt = |f: &LOH| PV::of_ts(&<LOH as Arrow>::target(f).iter().map(|l| K::rd_l(l)).collect::<Vec<T>>());
    // the strict constructors on the same arguments, and the strictified lax results (C10: strictification
    // commutes with identity, symmetry, spiders and singleton; defined on both sides or on neither)
    let sem = |v: &[T]| SemifiniteFunction::<VK, L>(open_hypergraphs::array::vec::VecArray(ls(v)));
    let o = |x: Option<VOH>| match x {
        None => PV::None,
        Some(v) => PV::Some(Box::new(pv_voh(&v))),
    };
    let strict_side = PV::List(vec![
        pv_voh(&<VOH as Arrow>::identity(sem(&a))),
        pv_voh(&<VOH as SymmetricMonoidal>::twist(sem(&a), sem(&b))),
        pv_voh(&VOH::singleton(K::mk_l(inp.at(2).t()), sem(&a), sem(&b))),
        o(VOH::spider(s.clone(), t.clone(), sem(&w))),
    ]);
    let lax_side = PV::List(vec![pv_voh(&id.clone().to_strict()), pv_voh(&tw.clone().to_strict()), pv_voh(&single.clone().to_strict()), o(sp.clone().map(|x| x.to_strict()))]);
    PV::List(vec![pv_lax(&id), pv_lax(&id2), pv_lax(&tw), src(&tw), tgt(&tw), pv_lax(&single), src(&single), tgt(&single), pv_opt_lax(sp), pv_opt_lax(sp2), pv_opt_lax(hs), pv_lax(&LOH::empty()), strict_side, lax_side])
}

// ------------------------------------------------------------------ C11 (imperative editing)
fn eid(t: T) -> lax::EdgeId {
    lax::EdgeId(RawLax::id(t))
}
fn cix(v: usize) -> T {
    tm::c(v as u64, crate::explore::iw())
}
pub fn c11_add(inp: &PV) -> PV {
    // inputs: state, node label l, edge label x, src ids, tgt ids, src labels, tgt labels
    let st = inp.at(0).lax();
    let (l, x) = (inp.at(1).t(), inp.at(2).t());
    let ids = |p: &PV| p.ts().iter().map(|t| nid(*t)).collect::<Vec<_>>();
    let ls = |p: &PV| p.ts().iter().map(|t| K::mk_l(*t)).collect::<Vec<L>>();
    let mut out = vec![];
    {
        let mut f = lax_build(st);
        let n = f.new_node(K::mk_l(l));
        out.push(PV::List(vec![PV::T(tid(&n)), pv_lax(&f)]));
    }
    {
        let mut f = lax_build(st);
        let e = f.new_edge(K::mk_l(x), lax::Hyperedge { sources: ids(inp.at(3)), targets: ids(inp.at(4)) });
        out.push(PV::List(vec![PV::T(cix(e.0)), pv_lax(&f)]));
    }
    {
        let mut f = lax_build(st);
        let (e, (s, t)) = f.new_operation(K::mk_l(x), ls(inp.at(5)), ls(inp.at(6)));
        out.push(PV::List(vec![PV::T(cix(e.0)), PV::of_ts(&s.iter().map(tid_t).collect::<Vec<T>>()), PV::of_ts(&t.iter().map(tid_t).collect::<Vec<T>>()), pv_lax(&f)]));
    }
    {
        // the hypergraph-level entry points behave the same
        let mut h = lax_build(st).hypergraph;
        let n = h.new_node(K::mk_l(l));
        let e = h.new_edge(K::mk_l(x), (ids(inp.at(3)), ids(inp.at(4))));
        out.push(PV::List(vec![PV::T(cix(n.0)), PV::T(cix(e.0)), pv_lax(&LOH { sources: vec![], targets: vec![], hypergraph: h })]));
    }
    PV::List(out)
}
fn tid_t(n: &lax::NodeId) -> T {
    cix(n.0)
}
pub fn c11_edge_edit(inp: &PV) -> PV {
    // inputs: state, edge id, label, v, w
    let st = inp.at(0).lax();
    let e = eid(inp.at(1).t());
    let l = inp.at(2).t();
    let mut f = lax_build(st);
    let a = f.add_edge_source(e, K::mk_l(l));
    let sa = lax_read(&f);
    let mut g = lax_build(st);
    let b = g.add_edge_target(e, K::mk_l(l));
    let sb = lax_read(&g);
    PV::List(vec![PV::T(cix(a.0)), PV::Lax(sa), PV::T(cix(b.0)), PV::Lax(sb)])
}
pub fn c11_unify(inp: &PV) -> PV {
    let mut f = lax_build(inp.at(0).lax());
    f.unify(nid(inp.at(1).t()), nid(inp.at(2).t()));
    pv_lax(&f)
}
pub fn c11_delete_nodes(inp: &PV) -> PV {
    let st = inp.at(0).lax();
    let ids: Vec<lax::NodeId> = inp.at(1).ts().iter().map(|t| nid(*t)).collect();
    let mut f = lax_build(st);
    f.delete_nodes(&ids);
    let mut h = lax_build(st).hypergraph;
    let w = h.delete_nodes_witness(&ids);
    let mut h2 = lax_build(st).hypergraph;
    h2.delete_nodes(&ids);
    let wit = PV::List(w.iter().map(|o| match o { None => PV::None, Some(v) => PV::Some(Box::new(PV::T(cix(*v)))) }).collect());
    PV::List(vec![pv_lax(&f), wit, pv_lax(&LOH { sources: vec![], targets: vec![], hypergraph: h }), pv_lax(&LOH { sources: vec![], targets: vec![], hypergraph: h2 })])
}
pub fn c11_delete_edges(inp: &PV) -> PV {
    let st = inp.at(0).lax();
    let ids: Vec<lax::EdgeId> = inp.at(1).ts().iter().map(|t| eid(*t)).collect();
    let mut f = lax_build(st);
    f.delete_edges(&ids);
    let mut h = lax_build(st).hypergraph;
    #[allow(deprecated)]
    h.delete_edge(&ids);
    PV::List(vec![pv_lax(&f), pv_lax(&LOH { sources: vec![], targets: vec![], hypergraph: h })])
}
pub fn c11_relabel(inp: &PV) -> PV {
    let st = inp.at(0).lax();
    let c = K::mk_l(inp.at(1).t());
    let o = |x: Option<LOH>| pv_opt_lax(x);
    let f = || lax_build(st);
    let c2 = c.clone();
    let c3 = c.clone();
    let c4 = c.clone();
    PV::List(vec![
        o(f().with_nodes(|mut v| { v.reverse(); v })),
        o(f().with_nodes(|mut v| { v.push(c2); v })),
        o(f().with_nodes(|mut v: Vec<L>| { v.pop(); v })),
        pv_lax(&f().map_nodes(|l| l)),
        pv_lax(&f().map_nodes(move |_| c3.clone())),
        o(f().with_edges(|mut v| { v.reverse(); v })),
        o(f().with_edges(|mut v| { v.push(c4); v })),
        pv_lax(&f().map_edges(move |_| c.clone())),
    ])
}

// ------------------------------------------------------------------ C19 (Var interface, forgetting)
use open_hypergraphs::lax::var;
pub fn c19_forget(inp: &PV) -> PV {
    let f = lax_build(inp.at(0).lax());
    PV::List(vec![pv_lax(&var::forget::forget(&f)), pv_lax(&var::forget::forget_monogamous(&f))])
}
/// scripted uses of the Var builder; inputs: script id, object labels tx, ty, extra labels
pub fn c19_build(inp: &PV) -> PV {
    use std::cell::RefCell;
    use std::rc::Rc;
    type St = Rc<RefCell<LOH>>;
    let script = tm::as_const(inp.at(0).t()).expect("script id");
    let (tx, ty, t1, t2) = (K::mk_l(inp.at(1).t()), K::mk_l(inp.at(2).t()), K::mk_l(inp.at(3).t()), K::mk_l(inp.at(4).t()));
    let op3 = K::mk_l(tm::c(crate::conv::L_OP3, crate::explore::lw()));
    let leaked: RefCell<Option<var::Var<L, L>>> = RefCell::new(None);
    let r = var::build(|st: &St| {
        let x = var::Var::new(st.clone(), tx.clone());
        let y = var::Var::new(st.clone(), ty.clone());
        match script {
            // (x + y) * x
            0 => (vec![x.clone(), y.clone()], vec![(x.clone() + y) * x]),
            // -(x) ^ y, and x again as a second output
            1 => (vec![x.clone(), y.clone()], vec![(-x.clone()) ^ y, x]),
            // a ternary operation with two results, one operand used twice
            2 => {
                let rs = var::operation(st, &[x.clone(), x.clone(), y.clone()], vec![t1.clone(), t2.clone()], op3.clone());
                (vec![x, y], rs)
            }
            // no operation: one input, used twice as output
            3 => (vec![x.clone()], vec![x.clone(), x]),
            // nothing at all
            4 => (vec![], vec![]),
            // x & (y - x), then not
            5 => (vec![x.clone(), y.clone()], vec![!(x.clone() & (y - x))]),
            // a single-result operation through fn_operation; an input that is never used
            6 => (vec![x.clone(), y], vec![var::fn_operation(st, &[x.clone(), x], t1.clone(), op3.clone())]),
            // the remaining operator overloads: (x | y) << (y >> x), then divided by x
            8 => (vec![x.clone(), y.clone()], vec![((x.clone() | y.clone()) << (y >> x.clone())) / x]),
            // explicit handles: extra source/target nodes of a variable are part of its hyperedge
            9 => {
                let extra = x.new_target();
                st.borrow_mut().targets.push(extra);
                (vec![x.clone()], vec![x])
            }
            // a handle that outlives the builder
            7 => {
                *leaked.borrow_mut() = Some(x.clone());
                (vec![x], vec![y])
            }
            _ => panic!("ENGINE-ERROR: unknown script"),
        }
    });
    match r {
        Ok(f) => PV::Tag("Ok".into(), vec![pv_lax(&f)]),
        Err(state) => {
            let f = state.borrow().clone();
            PV::Tag("Err".into(), vec![pv_lax(&f)])
        }
    }
}

// ------------------------------------------------------------------ lax functors (C12 lax half, C13) and lax optics (C14 lax half)
#[derive(Clone)]
pub struct LaxFam(pub u64);
fn lvec(ts: Vec<T>) -> Vec<L> {
    ts.into_iter().map(K::mk_l).collect()
}
fn lax_expand(fam: u64, ls: &[L]) -> Vec<L> {
    ls.iter().flat_map(|l| lvec(fam_obj(fam, K::rd_l(l)))).collect()
}
impl lax::functor::Functor<L, L, L, L> for LaxFam {
    fn map_object(&self, o: &L) -> impl ExactSizeIterator<Item = L> {
        lvec(fam_obj(self.0, K::rd_l(o))).into_iter()
    }
    fn map_operation(&self, x: &L, source: &[L], target: &[L]) -> LOH {
        let (a, b) = (lax_expand(self.0, source), lax_expand(self.0, target));
        match self.0 {
            0 | 1 | 2 | 3 => LOH::singleton(x.clone(), a, b),
            // composite image built with lax composition: it still carries its pending unifications
            4 => <LOH as Arrow>::compose(&LOH::singleton(x.clone(), a, b.clone()), &LOH::singleton(x.clone(), b.clone(), b)).expect("harness: well typed"),
            // spider-only image: discard the inputs, create the outputs
            5 => {
                let (na, nb) = (a.len(), b.len());
                let mut w = a;
                w.extend(b);
                LOH::spider(FiniteFunction::<VK>::inj0(na, nb), FiniteFunction::<VK>::inj1(na, nb), w).expect("harness: spider")
            }
            // the composite image again, built imperatively with explicit unifications
            6 => {
                let mut f = LOH::empty();
                let (_, (s1, t1)) = f.new_operation(x.clone(), a, b.clone());
                let (_, (s2, t2)) = f.new_operation(x.clone(), b.clone(), b);
                for (u, v) in t1.iter().zip(s2.iter()) {
                    f.unify(*v, *u);
                }
                f.sources = s1;
                f.targets = t2;
                f
            }
            _ => panic!("ENGINE-ERROR: unknown functor family"),
        }
    }
    fn map_arrow(&self, f: &LOH) -> LOH {
        lax::functor::dyn_functor::define_map_arrow(self, f)
    }
}
pub fn c12_lax_map(inp: &PV) -> PV {
    use lax::functor::Functor as LF;
    let f = lax_build(inp.at(0).lax());
    let fam = tm::as_const(inp.at(1).t()).expect("family");
    let via_strict = if fam == 0 { LF::map_arrow(&lax::functor::dyn_functor::Identity, &f) } else { LF::map_arrow(&LaxFam(fam), &f) };
    // the deprecated free function is the same path
    #[allow(deprecated)]
    let old = lax::functor::define_map_arrow(&LaxFam(if fam == 0 { 0 } else { fam }), &f);
    PV::List(vec![pv_lax(&via_strict), pv_lax(&old)])
}
pub fn c13_native(inp: &PV) -> PV {
    let f = lax_build(inp.at(0).lax());
    let fam = tm::as_const(inp.at(1).t()).expect("family");
    let fun = LaxFam(fam);
    let native = lax::functor::try_define_map_arrow(&fun, &f);
    let wit = lax::functor::map_arrow_witness(&fun, &f);
    let iw = crate::explore::iw();
    let w = match wit {
        None => PV::None,
        Some((r, w)) => PV::Some(Box::new(PV::List(vec![
            pv_lax(&r),
            PV::of_ts(&w.sources.table.0.iter().map(|v| tm::c(*v as u64, iw)).collect::<Vec<T>>()),
            PV::of_ts(&w.values.table.0.iter().map(|v| tm::c(*v as u64, iw)).collect::<Vec<T>>()),
            PV::T(tm::c(w.values.target as u64, iw)),
        ]))),
    };
    // the path through the strict representation, for the same functor
    let via_strict = {
        use lax::functor::Functor as LF;
        if f.hypergraph.is_strict() {
            Some(LF::map_arrow(&fun, &f))
        } else {
            None
        }
    };
    PV::List(vec![pv_opt_lax(native), w, pv_opt_lax(via_strict)])
}
#[derive(Clone)]
pub struct LaxLens {
    pub ff: u64,
    pub rf: u64,
    pub r: usize,
}
impl lax::optic::Optic<L, L, L, L> for LaxLens {
    fn fwd_object(&self, o: &L) -> Vec<L> {
        lvec(fam_obj(self.ff, K::rd_l(o)))
    }
    fn rev_object(&self, o: &L) -> Vec<L> {
        lvec(fam_obj(self.rf, K::rd_l(o)))
    }
    fn residual(&self, a: &L) -> Vec<L> {
        vec![a.clone(); self.r]
    }
    fn fwd_operation(&self, x: &L, source: &[L], target: &[L]) -> LOH {
        let a = lax_expand(self.ff, source);
        let mut b = lax_expand(self.ff, target);
        b.extend(vec![x.clone(); self.r]);
        // composed with an identity so that the image carries pending unifications
        <LOH as Arrow>::compose(&LOH::singleton(x.clone(), a, b.clone()), &LOH::identity(b)).expect("harness")
    }
    fn rev_operation(&self, x: &L, source: &[L], target: &[L]) -> LOH {
        let mut s = vec![x.clone(); self.r];
        s.extend(lax_expand(self.rf, target));
        let t = lax_expand(self.rf, source);
        <LOH as Arrow>::compose(&LOH::identity(s.clone()), &LOH::singleton(x.clone(), s, t)).expect("harness")
    }
}
pub fn c14_lax(inp: &PV) -> PV {
    use lax::optic::Optic as LO;
    let f = lax_build(inp.at(0).lax());
    let (ff, rf, r) = lens_params(inp, 1);
    let o = LaxLens { ff, rf, r };
    PV::List(vec![pv_lax(&LO::map_arrow(&o, f.clone())), pv_lax(&LO::map_adapted(&o, f))])
}

// ------------------------------------------------------------------ C07 (array primitives through the trait interface, both backends)
pub fn c07_prims(inp: &PV) -> PV {
    // inputs: xs (small naturals), idx (indices < 4), ys (small naturals, same length as idx), d (non-zero), c,
    // base (4 values >= 4), idx2, keys4, group
    let xs = K::mk_ix(&inp.at(0).ts());
    let idx = K::mk_ix(&inp.at(1).ts());
    let ys = K::mk_ix(&inp.at(2).ts());
    let (d, c) = (ki(inp, 3), ki(inp, 4));
    let n = xs.len();
    let iw = crate::explore::iw();
    let four = K::mk_i(tm::c(4, iw));
    let base = K::mk_ix(&inp.at(5).ts());
    let group = tm::as_const(inp.at(8).t()).expect("group");
    let skip = || PV::None;
    let mut out: Vec<PV> = (0..24).map(|_| skip()).collect();
    match group {
        // order/equality-based primitives on the value array
        0 => {
            let (keys, counts) = xs.sparse_bincount();
            out[0] = pv_ix(&xs.argsort());
            out[1] = pv_ix(&keys);
            out[2] = pv_ix(&counts);
            out[3] = pv_ix(&xs.bincount(K::mk_i(tm::c(8, iw))));
            out[4] = pv_ix(&xs.zero());
            out[5] = match xs.max() {
                None => PV::Tag("none".into(), vec![]),
                Some(m) => PV::Some(Box::new(PV::T(K::rd_i(&m)))),
            };
            out[6] = pv_ix(&xs.cumulative_sum());
            out[7] = PV::T(K::rd_i(&xs.sum()));
            out[21] = pv_ix(&(xs.clone() + xs.clone()));
            out[22] = pv_ix(&(n.clone() + &xs));
        }
        4 => {
            out[8] = pv_ix(&base.sort_by(&K::mk_ix(&inp.at(7).ts())));
        }
        // count-driven primitives
        1 => {
            out[9] = pv_ix(&xs.repeat(xs.get_range(..)));
            out[10] = pv_ix(&xs.segmented_arange());
            let (q, r) = xs.quot_rem(d);
            out[11] = pv_ix(&q);
            out[12] = pv_ix(&r);
        }
        // index-driven primitives
        2 => {
            let mut sub = base.clone();
            // amounts are all 1 and the base values are >= 4, so repeated indices never underflow
            let ones = <K as ArrayKind>::Index::fill(K::mk_i(tm::c(1, iw)), idx.len());
            sub.scatter_sub_assign(&idx, &ones);
            let mut asg = base.clone();
            asg.scatter_assign(&idx, ys.clone());
            let mut asgc = base.clone();
            asgc.scatter_assign_constant(&idx, c.clone());
            out[13] = pv_ix(&ys.mul_constant_add(c.clone(), &ys));
            out[14] = pv_ix(&base.gather(idx.get_range(..)));
            out[15] = pv_ix(&ys.scatter(idx.get_range(..), four.clone()));
            out[16] = pv_ix(&asg);
            out[17] = pv_ix(&asgc);
            out[18] = pv_ix(&sub);
            out[23] = pv_ix(&xs.concatenate(&ys));
        }
        // connected components
        3 => {
            let (cc, k) = <<K as ArrayKind>::Index as NaturalArray<K>>::connected_components(&idx, &K::mk_ix(&inp.at(6).ts()), four.clone());
            out[19] = pv_ix(&cc);
            out[20] = PV::T(K::rd_i(&k));
        }
        // connected components over `d` nodes (union-find trees of depth > 2 need >= 8 nodes)
        5 => {
            let (cc, k) = <<K as ArrayKind>::Index as NaturalArray<K>>::connected_components(&idx, &K::mk_ix(&inp.at(6).ts()), d.clone());
            out[19] = pv_ix(&cc);
            out[20] = PV::T(K::rd_i(&k));
        }
        _ => panic!("ENGINE-ERROR: unknown primitive group"),
    }
    PV::List(out)
}

// ------------------------------------------------------------------ C14 derivative clause: reverse-derivative lenses of polynomial circuits
use crate::conv::{poly_arity, P_ADD, P_CONST, P_COPY, P_DISCARD, P_MUL, P_NEG, P_ZERO};
#[derive(Clone)]
pub struct RDLens {
    /// the single object label of the circuit theory
    pub obj: T,
}
fn plab(k: u64) -> L {
    K::mk_l(tm::c(k, crate::explore::lw()))
}
impl RDLens {
    fn o(&self) -> L {
        K::mk_l(self.obj)
    }
    fn kind(x: &L) -> u64 {
        tm::as_const(K::rd_l(x)).expect("polynomial circuits have concrete operation labels")
    }
}
impl lax::optic::Optic<L, L, L, L> for RDLens {
    fn fwd_object(&self, _o: &L) -> Vec<L> {
        vec![self.o()]
    }
    fn rev_object(&self, _o: &L) -> Vec<L> {
        vec![self.o()]
    }
    fn residual(&self, a: &L) -> Vec<L> {
        match Self::kind(a) {
            P_MUL => vec![self.o(), self.o()],
            _ => vec![],
        }
    }
    /// forward part: the operation itself, keeping what the reverse part needs
    fn fwd_operation(&self, a: &L, _s: &[L], _t: &[L]) -> LOH {
        let o = self.o();
        match Self::kind(a) {
            // (x, y) |-> (x * y, x, y)
            P_MUL => {
                let mut f = LOH::empty();
                let (_, (sx, tx)) = f.new_operation(plab(P_COPY), vec![o.clone()], vec![o.clone(), o.clone()]);
                let (_, (sy, ty)) = f.new_operation(plab(P_COPY), vec![o.clone()], vec![o.clone(), o.clone()]);
                let (_, (sm, tmul)) = f.new_operation(plab(P_MUL), vec![o.clone(), o.clone()], vec![o.clone()]);
                f.unify(tx[0], sm[0]);
                f.unify(ty[0], sm[1]);
                f.sources = vec![sx[0], sy[0]];
                f.targets = vec![tmul[0], tx[1], ty[1]];
                f
            }
            k => {
                let (na, nb) = poly_arity(k);
                LOH::singleton(plab(k), vec![o.clone(); na], vec![o; nb])
            }
        }
    }
    /// reverse part: residual ● R(target) -> R(source)
    fn rev_operation(&self, a: &L, _s: &[L], _t: &[L]) -> LOH {
        let o = self.o();
        let single = |k: u64| {
            let (na, nb) = poly_arity(k);
            LOH::singleton(plab(k), vec![o.clone(); na], vec![o.clone(); nb])
        };
        match Self::kind(a) {
            // dz |-> (dz, dz)
            P_ADD => single(P_COPY),
            // (x, y, dz) |-> (y * dz, x * dz)
            P_MUL => {
                let mut f = LOH::empty();
                let x = f.new_node(o.clone());
                let y = f.new_node(o.clone());
                let (_, (sd, td)) = f.new_operation(plab(P_COPY), vec![o.clone()], vec![o.clone(), o.clone()]);
                let (_, (s1, t1)) = f.new_operation(plab(P_MUL), vec![o.clone(), o.clone()], vec![o.clone()]);
                let (_, (s2, t2)) = f.new_operation(plab(P_MUL), vec![o.clone(), o.clone()], vec![o.clone()]);
                f.unify(y, s1[0]);
                f.unify(td[0], s1[1]);
                f.unify(x, s2[0]);
                f.unify(td[1], s2[1]);
                f.sources = vec![x, y, sd[0]];
                f.targets = vec![t1[0], t2[0]];
                f
            }
            P_NEG => single(P_NEG),
            // (dz1, dz2) |-> dz1 + dz2
            P_COPY => single(P_ADD),
            // () |-> 0
            P_DISCARD => single(P_ZERO),
            // dz |-> ()
            P_CONST | P_ZERO => single(P_DISCARD),
            k => panic!("ENGINE-ERROR: unknown polynomial operation {}", k),
        }
    }
}
/// interpreter of the polynomial signature over the Vec backend with value type V
pub fn poly_interpreter(labels: SemifiniteFunction<VK, L>, inputs: IndexedCoproduct<VK, SemifiniteFunction<VK, V>>) -> IndexedCoproduct<VK, SemifiniteFunction<VK, V>> {
    use open_hypergraphs::array::vec::VecArray;
    let vw = crate::explore::vw();
    let vals: Vec<T> = inputs.values.0 .0.iter().map(|v| K::rd_v(v)).collect();
    let mut p = 0;
    let mut sizes = vec![];
    let mut outs: Vec<T> = vec![];
    for (l, sz) in labels.0 .0.iter().zip(inputs.sources.table.0.iter()) {
        let k = RDLens::kind(l);
        let xs = &vals[p..p + sz];
        p += sz;
        let ys: Vec<T> = match k {
            P_ADD => vec![tm::add(xs[0], xs[1])],
            P_MUL => vec![tm::mul(xs[0], xs[1])],
            P_NEG => vec![tm::sub(tm::c(0, vw), xs[0])],
            P_COPY => vec![xs[0], xs[0]],
            P_DISCARD => vec![],
            P_CONST => vec![tm::c(5, vw)],
            P_ZERO => vec![tm::c(0, vw)],
            k => panic!("ENGINE-ERROR: unknown polynomial operation {}", k),
        };
        sizes.push(ys.len());
        outs.extend(ys);
    }
    IndexedCoproduct::from_semifinite(SemifiniteFunction(VecArray(sizes)), SemifiniteFunction(VecArray(outs.into_iter().map(K::mk_v).collect()))).expect("interpreter output")
}
/// inputs: circuit (lax, concrete wiring, labels = polynomial operations), x values, dy values
pub fn c14_derivative(inp: &PV) -> PV {
    use lax::optic::Optic as LO;
    use open_hypergraphs::array::vec::VecArray;
    let f = lax_build(inp.at(0).lax());
    let obj = inp.at(0).lax().nodes.first().copied().unwrap_or_else(|| tm::c(0, crate::explore::lw()));
    let lens = RDLens { obj };
    let adapted = LO::map_adapted(&lens, f);
    let strict = adapted.clone().to_strict();
    let mut ins: Vec<V> = inp.at(1).ts().into_iter().map(K::mk_v).collect();
    ins.extend(inp.at(2).ts().into_iter().map(K::mk_v));
    let r = open_hypergraphs::strict::eval::eval::<VK, L, L, V>(&strict, VecArray(ins), poly_interpreter);
    PV::List(vec![
        match r {
            None => PV::None,
            Some(v) => PV::Some(Box::new(PV::of_ts(&v.0.iter().map(|x| K::rd_v(x)).collect::<Vec<T>>()))),
        },
        pv_bool(strict.is_monogamous()),
        pv_bool(strict.is_acyclic()),
        pv_lax(&adapted),
    ])
}

// ------------------------------------------------------------------ C06 addendum: SemifiniteArrow; C08 addendum: VecKind-only iterators
pub fn c06_semifinite_arrow(inp: &PV) -> PV {
    use open_hypergraphs::semifinite::{SemifiniteArrow as SA, SemifiniteObject as SO};
    let (f, g) = (ff_raw(inp.at(0).ff()), ff_raw(inp.at(1).ff()));
    let l = sl(&inp.at(2).ts());
    let show_obj = |o: SO<K, L>| match o {
        SO::Finite(n) => PV::Some(Box::new(PV::T(K::rd_i(&n)))),
        SO::Set(_) => PV::None,
    };
    let show = |a: Option<SA<K, L>>| match a {
        None => PV::None,
        Some(SA::Identity) => PV::Tag("Identity".into(), vec![]),
        Some(SA::Finite(h)) => PV::Tag("Finite".into(), vec![pv_ff(&h)]),
        Some(SA::Semifinite(h)) => PV::Tag("Semifinite".into(), vec![pv_labels(&h)]),
    };
    let (af, ag, al): (SA<K, L>, SA<K, L>, SA<K, L>) = (f.clone().into(), g.clone().into(), l.clone().into());
    PV::List(vec![
        show(af.compose(&ag)),
        show(af.compose(&al)),
        show(al.compose(&af)),
        show(af.compose(&SA::Identity)),
        show(SA::<K, L>::Identity.compose(&af)),
        show_obj(af.source()),
        show_obj(af.target()),
        show_obj(al.source()),
        show_obj(al.target()),
        show(Some(SA::<K, L>::identity(SO::Finite(f.target())))),
        show(Some(SA::<K, L>::identity(SO::Set(core::marker::PhantomData)))),
    ])
}
/// the VecKind-only slice iterators (labels of type L, concrete sizes)
pub fn c08_vec_iter(inp: &PV) -> PV {
    use open_hypergraphs::array::vec::VecArray;
    let mk = |r: &RawIC| -> IndexedCoproduct<VK, SemifiniteFunction<VK, L>> {
        let sizes = VecArray(r.sizes.iter().map(|t| RawLax::id(*t)).collect::<Vec<usize>>());
        IndexedCoproduct::from_semifinite(SemifiniteFunction(sizes), SemifiniteFunction(VecArray(r.vals.iter().map(|t| K::mk_l(*t)).collect::<Vec<L>>()))).expect("gen")
    };
    let (a, b) = (mk(inp.at(0).ic()), mk(inp.at(1).ic()));
    let x = SemifiniteFunction::<VK, L>(VecArray(inp.at(2).ts().iter().map(|t| K::mk_l(*t)).collect()));
    let ls = |s: &[L]| PV::of_ts(&s.iter().map(|l| K::rd_l(l)).collect::<Vec<T>>());
    let slices = PV::List(a.iter().map(|s| ls(s)).collect());
    let ops = Operations::<VK, L, L>::new(x, a, b).expect("gen: operation batch");
    let triples = PV::List(ops.iter().map(|(l, s, t)| PV::List(vec![PV::T(K::rd_l(l)), ls(s), ls(t)])).collect());
    PV::List(vec![slices, triples])
}


// ------------------------------------------------------------------ C11 serde clause
pub fn c11_serde(inp: &PV) -> PV {
    use serde_json::{json, Value};
    let r = inp.at(0).lax();
    let f = lax_build(r);
    let text = serde_json::to_string(&f).expect("serialisation succeeds");
    let back: LOH = serde_json::from_str(&text).expect("deserialisation succeeds");
    // the documented shape: field names and plain numbers for node identifiers
    let got: Value = serde_json::from_str(&text).expect("valid JSON");
    let ids = |ts: &[T]| Value::Array(ts.iter().map(|t| json!(RawLax::id(*t))).collect());
    let labs = |ts: &[T]| Value::Array(ts.iter().map(|t| serde_json::to_value(K::mk_l(*t)).unwrap()).collect());
    let want = json!({
        "sources": ids(&r.s),
        "targets": ids(&r.t),
        "hypergraph": {
            "nodes": labs(&r.nodes),
            "edges": labs(&r.edges),
            "adjacency": Value::Array(r.adj.iter().map(|(a, b)| json!({"sources": ids(a), "targets": ids(b)})).collect()),
            "quotient": json!([ids(&r.quot.iter().map(|p| p.0).collect::<Vec<T>>()), ids(&r.quot.iter().map(|p| p.1).collect::<Vec<T>>())]),
        }
    });
    // the hypergraph alone round-trips too
    let h2: lax::Hypergraph<L, L> = serde_json::from_str(&serde_json::to_string(&f.hypergraph).unwrap()).expect("hypergraph round trip");
    PV::List(vec![pv_lax(&back), pv_bool(got == want), pv_lax(&LOH { sources: vec![], targets: vec![], hypergraph: h2 })])
}


// ------------------------------------------------------------------ C03 lax half: the laws for lax diagrams, through strictification
pub fn c03_lax(inp: &PV) -> PV {
    let (f, g, h) = (lax_build(inp.at(0).lax()), lax_build(inp.at(1).lax()), lax_build(inp.at(2).lax()));
    let comp = |a: &LOH, b: &LOH| <LOH as Arrow>::compose(a, b);
    let st = |x: Option<LOH>| match x {
        None => PV::None,
        Some(v) => PV::Some(Box::new(pv_voh(&v.to_strict()))),
    };
    let src = |x: &LOH| <LOH as Arrow>::source(x);
    let tgt = |x: &LOH| <LOH as Arrow>::target(x);
    // associativity (the right-nested side composes with an un-quotiented composite)
    let l = comp(&f, &g).and_then(|fg| comp(&fg, &h));
    let r = comp(&g, &h).and_then(|gh| comp(&f, &gh));
    // identity laws
    let il = comp(&LOH::identity(src(&f)), &f);
    let ir = comp(&f, &LOH::identity(tgt(&f)));
    // interchange with identities: (f ⊗ g') ; (g ⊗ h') where the second factors are f's neighbours
    let i1 = comp(&f.tensor(&g), &LOH::identity(tgt(&f)).tensor(&LOH::identity(tgt(&g))));
    let i2 = match (comp(&f, &LOH::identity(tgt(&f))), comp(&g, &LOH::identity(tgt(&g)))) {
        (Some(a), Some(b)) => Some(a.tensor(&b)),
        _ => None,
    };
    // naturality of the symmetry
    let n1 = comp(&f.tensor(&g), &<LOH as SymmetricMonoidal>::twist(tgt(&f), tgt(&g)));
    let n2 = comp(&<LOH as SymmetricMonoidal>::twist(src(&f), src(&g)), &g.tensor(&f));
    PV::List(vec![st(l), st(r), st(il), st(ir), pv_voh(&f.clone().to_strict()), st(i1), st(i2), st(n1), st(n2)])
}
