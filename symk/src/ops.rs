// This file is `include!`d twice: in `crate::sym` (K = SymKind: symbolic execution of the real
// generic code) and in `crate::nat` (K = the library's own VecKind: native execution, used for
// replays and encoder validation). Only the aliases K, L, V differ.
#[allow(unused_imports)]
use crate::conv::Conv;
#[allow(unused_imports)]
use crate::plain::*;
#[allow(unused_imports)]
use crate::term::{self as tm, T};
#[allow(unused_imports)]
use open_hypergraphs::array::*;
#[allow(unused_imports)]
use open_hypergraphs::category::*;
#[allow(unused_imports)]
use open_hypergraphs::finite_function::*;
#[allow(unused_imports)]
use open_hypergraphs::indexed_coproduct::*;
#[allow(unused_imports)]
use open_hypergraphs::operations::Operations;
#[allow(unused_imports)]
use open_hypergraphs::semifinite::*;
#[allow(unused_imports)]
use open_hypergraphs::strict::hypergraph::*;
#[allow(unused_imports)]
use open_hypergraphs::strict::open_hypergraph::{InvalidOpenHypergraph, OpenHypergraph};

pub type FF = FiniteFunction<K>;
pub type ICF = IndexedCoproduct<K, FiniteFunction<K>>;
pub type ICL = IndexedCoproduct<K, SemifiniteFunction<K, L>>;
pub type SL = SemifiniteFunction<K, L>;
pub type H = Hypergraph<K, L, L>;
pub type OH = OpenHypergraph<K, L, L>;

// ------------------------------------------------------------------ building real values from plain data
/// unchecked construction (fields are public): exactly the raw data, well-formed or not
pub fn ff_raw(r: &RawFF) -> FF {
    FiniteFunction { table: K::mk_ix(&r.table), target: K::mk_i(r.target) }
}
pub fn sl(ts: &[T]) -> SL {
    SemifiniteFunction(K::mk_ls(ts))
}
/// through the checked constructors (panics if the raw data is not well-formed)
pub fn icf(r: &RawIC) -> ICF {
    let values = FiniteFunction::new(K::mk_ix(&r.vals), K::mk_i(r.vals_target)).expect("gen: values in range");
    IndexedCoproduct::from_semifinite(SemifiniteFunction(K::mk_ix(&r.sizes).into()), values).expect("gen: sizes sum to value length")
}
pub fn icl(r: &RawIC) -> ICL {
    IndexedCoproduct::from_semifinite(SemifiniteFunction(K::mk_ix(&r.sizes).into()), sl(&r.vals)).expect("gen: sizes sum to value length")
}
pub fn hg(r: &RawH) -> H {
    Hypergraph::new(icf(&r.s), icf(&r.t), sl(&r.w), sl(&r.x)).expect("gen: well-formed hypergraph")
}
pub fn oh(r: &RawOH) -> OH {
    let s = FiniteFunction::new(K::mk_ix(&r.s.table), K::mk_i(r.s.target)).expect("gen: source leg in range");
    let t = FiniteFunction::new(K::mk_ix(&r.t.table), K::mk_i(r.t.target)).expect("gen: target leg in range");
    OpenHypergraph::new(s, t, hg(&r.h)).expect("gen: well-formed open hypergraph")
}

// ------------------------------------------------------------------ reading real values back
pub fn rd_ff(f: &FF) -> RawFF {
    RawFF { table: K::rd_ix(&f.table), target: K::rd_i(&f.target) }
}
pub fn rd_icf(c: &ICF) -> RawIC {
    RawIC { sizes: K::rd_ix(&c.sources.table), sizes_target: K::rd_i(&c.sources.target), vals: K::rd_ix(&c.values.table), vals_target: K::rd_i(&c.values.target) }
}
pub fn rd_icl(c: &ICL) -> RawIC {
    RawIC { sizes: K::rd_ix(&c.sources.table), sizes_target: K::rd_i(&c.sources.target), vals: K::rd_ls(&c.values.0), vals_target: tm::c(0, crate::explore::iw()) }
}
pub fn rd_h(h: &H) -> RawH {
    RawH { s: rd_icf(&h.s), t: rd_icf(&h.t), w: K::rd_ls(&h.w.0), x: K::rd_ls(&h.x.0) }
}
pub fn rd_oh(f: &OH) -> RawOH {
    RawOH { s: rd_ff(&f.s), t: rd_ff(&f.t), h: rd_h(&f.h) }
}
pub fn pv_opt_oh(r: Option<OH>) -> PV {
    match r {
        None => PV::None,
        Some(f) => PV::Some(Box::new(PV::OH(rd_oh(&f)))),
    }
}

// ------------------------------------------------------------------ C01
pub fn c01_compose(inp: &PV) -> PV {
    let (f, g) = (oh(inp.at(0).oh()), oh(inp.at(1).oh()));
    pv_opt_oh(f.compose(&g))
}

pub fn pv_bool(b: bool) -> PV {
    PV::T(tm::bconst(b))
}
pub fn pv_ix(a: &<K as ArrayKind>::Index) -> PV {
    PV::of_ts(&K::rd_ix(a))
}

// ------------------------------------------------------------------ C17
pub fn c17_acyclic(inp: &PV) -> PV {
    let f = oh(inp.at(0).oh());
    let a = f.is_acyclic();
    let b = f.h.is_acyclic();
    PV::List(vec![pv_bool(a), pv_bool(b)])
}
pub fn c17_monogamous(inp: &PV) -> PV {
    pv_bool(oh(inp.at(0).oh()).is_monogamous())
}
pub fn c17_degrees(inp: &PV) -> PV {
    let f = oh(inp.at(0).oh());
    let v = K::mk_i(inp.at(1).t());
    PV::List(vec![PV::T(K::rd_i(&f.h.in_degree(v.clone()))), PV::T(K::rd_i(&f.h.out_degree(v)))])
}

// ------------------------------------------------------------------ C15
pub fn c15_layer(inp: &PV) -> PV {
    let f = oh(inp.at(0).oh());
    let (order, unvisited) = open_hypergraphs::strict::layer::layer(&f);
    PV::List(vec![PV::FF(rd_ff(&order)), PV::of_ts(&K::rd_ix(&unvisited))])
}
pub fn c15_layered(inp: &PV) -> PV {
    let f = oh(inp.at(0).oh());
    let (groups, unvisited) = open_hypergraphs::strict::layer::layered_operations(&f);
    let (order, _) = open_hypergraphs::strict::layer::layer(&f);
    PV::List(vec![PV::List(groups.iter().map(|g| pv_ix(g)).collect()), pv_ix(&unvisited), PV::FF(rd_ff(&order))])
}

// ------------------------------------------------------------------ C02 / C03 / C04 (categorical structure)
pub fn pv_oh(f: &OH) -> PV {
    PV::OH(rd_oh(f))
}
pub fn pv_labels(a: &SL) -> PV {
    PV::of_ts(&K::rd_ls(&a.0))
}
pub fn unit_oh() -> OH {
    OpenHypergraph::identity(<OH as Monoidal>::unit())
}
pub fn c02_tensor(inp: &PV) -> PV {
    let (f, g) = (oh(inp.at(0).oh()), oh(inp.at(1).oh()));
    let r = f.tensor(&g);
    let r2 = &f | &g;
    PV::List(vec![pv_oh(&r), pv_labels(&r.source()), pv_labels(&r.target()), pv_oh(&r2)])
}
pub fn c02_assoc(inp: &PV) -> PV {
    let (f, g, h) = (oh(inp.at(0).oh()), oh(inp.at(1).oh()), oh(inp.at(2).oh()));
    PV::List(vec![pv_oh(&f.tensor(&g).tensor(&h)), pv_oh(&f.tensor(&g.tensor(&h)))])
}
pub fn c02_unit(inp: &PV) -> PV {
    let f = oh(inp.at(0).oh());
    let u = unit_oh();
    PV::List(vec![pv_oh(&f.tensor(&u)), pv_oh(&u.tensor(&f)), pv_oh(&u)])
}
fn opt2(a: Option<OH>, b: Option<OH>) -> PV {
    PV::List(vec![pv_opt_oh(a), pv_opt_oh(b)])
}
pub fn c03_assoc(inp: &PV) -> PV {
    let (f, g, h) = (oh(inp.at(0).oh()), oh(inp.at(1).oh()), oh(inp.at(2).oh()));
    let l = f.compose(&g).and_then(|fg| fg.compose(&h));
    let r = g.compose(&h).and_then(|gh| f.compose(&gh));
    opt2(l, r)
}
pub fn c03_ident(inp: &PV) -> PV {
    let f = oh(inp.at(0).oh());
    let l = OH::identity(f.source()).compose(&f);
    let r = f.compose(&OH::identity(f.target()));
    opt2(l, r)
}
pub fn c03_interchange(inp: &PV) -> PV {
    let (f, g, h, k) = (oh(inp.at(0).oh()), oh(inp.at(1).oh()), oh(inp.at(2).oh()), oh(inp.at(3).oh()));
    let l = f.tensor(&g).compose(&h.tensor(&k));
    let r = match (f.compose(&h), g.compose(&k)) {
        (Some(a), Some(b)) => Some(a.tensor(&b)),
        _ => None,
    };
    opt2(l, r)
}
pub fn c03_twist_nat(inp: &PV) -> PV {
    let (f, g) = (oh(inp.at(0).oh()), oh(inp.at(1).oh()));
    let l = f.tensor(&g).compose(&OH::twist(f.target(), g.target()));
    let r = OH::twist(f.source(), g.source()).compose(&g.tensor(&f));
    opt2(l, r)
}
pub fn c03_twist_inv(inp: &PV) -> PV {
    let (a, b) = (sl(&inp.at(0).ts()), sl(&inp.at(1).ts()));
    let l = OH::twist(a.clone(), b.clone()).compose(&OH::twist(b.clone(), a.clone()));
    let r = Some(OH::identity(a.coproduct(&b)));
    let tw = OH::twist(a, b);
    PV::List(vec![pv_opt_oh(l), pv_opt_oh(r), pv_oh(&tw), pv_labels(&tw.source()), pv_labels(&tw.target())])
}
pub fn c03_hexagon(inp: &PV) -> PV {
    let (a, b, c) = (sl(&inp.at(0).ts()), sl(&inp.at(1).ts()), sl(&inp.at(2).ts()));
    let id = |x: &SL| OH::identity(x.clone());
    // σ_{a, b●c} = (σ_{a,b} ⊗ id_c) ; (id_b ⊗ σ_{a,c})
    let l1 = Some(OH::twist(a.clone(), b.coproduct(&c)));
    let r1 = OH::twist(a.clone(), b.clone()).tensor(&id(&c)).compose(&id(&b).tensor(&OH::twist(a.clone(), c.clone())));
    // σ_{a●b, c} = (id_a ⊗ σ_{b,c}) ; (σ_{a,c} ⊗ id_b)
    let l2 = Some(OH::twist(a.coproduct(&b), c.clone()));
    let r2 = id(&a).tensor(&OH::twist(b.clone(), c.clone())).compose(&OH::twist(a.clone(), c.clone()).tensor(&id(&b)));
    PV::List(vec![pv_opt_oh(l1), pv_opt_oh(r1), pv_opt_oh(l2), pv_opt_oh(r2)])
}
pub fn c04_dagger(inp: &PV) -> PV {
    let f = oh(inp.at(0).oh());
    let d = f.dagger();
    PV::List(vec![pv_oh(&d), pv_oh(&d.dagger())])
}
pub fn c04_dagger_tensor(inp: &PV) -> PV {
    let (f, g) = (oh(inp.at(0).oh()), oh(inp.at(1).oh()));
    PV::List(vec![pv_oh(&f.tensor(&g).dagger()), pv_oh(&f.dagger().tensor(&g.dagger()))])
}
pub fn c04_dagger_compose(inp: &PV) -> PV {
    let (f, g) = (oh(inp.at(0).oh()), oh(inp.at(1).oh()));
    opt2(f.compose(&g).map(|x| x.dagger()), g.dagger().compose(&f.dagger()))
}
pub fn c04_spider(inp: &PV) -> PV {
    let (s, t, w) = (ff_raw(inp.at(0).ff()), ff_raw(inp.at(1).ff()), sl(&inp.at(2).ts()));
    let a = OH::spider(s.clone(), t.clone(), w.clone());
    let b = <OH as Spider<K>>::spider(s, t, w);
    PV::List(vec![pv_opt_oh(a), pv_opt_oh(b)])
}
pub fn c04_half_spider(inp: &PV) -> PV {
    let (s, w) = (ff_raw(inp.at(0).ff()), sl(&inp.at(1).ts()));
    let a = <OH as Spider<K>>::half_spider(s.clone(), w.clone());
    let b = OH::spider(s.clone(), FF::identity(s.target()), w);
    PV::List(vec![pv_opt_oh(a), pv_opt_oh(b)])
}
pub fn c04_fusion(inp: &PV) -> PV {
    let a = OH::spider(ff_raw(inp.at(0).ff()), ff_raw(inp.at(1).ff()), sl(&inp.at(2).ts())).expect("gen: well-typed spider");
    let b = OH::spider(ff_raw(inp.at(3).ff()), ff_raw(inp.at(4).ff()), sl(&inp.at(5).ts())).expect("gen: well-typed spider");
    let r = a.compose(&b);
    let disc = r.as_ref().map(|r| r.h.is_discrete());
    PV::List(vec![pv_opt_oh(r), match disc { Some(d) => pv_bool(d), None => PV::None }])
}
pub fn c04_id_twist_spiders(inp: &PV) -> PV {
    let (a, b) = (sl(&inp.at(0).ts()), sl(&inp.at(1).ts()));
    let id = OH::identity(a.clone());
    let n = a.len();
    let id_sp = OH::spider(FF::identity(n.clone()), FF::identity(n), a.clone());
    let tw = OH::twist(a.clone(), b.clone());
    let tw_sp = OH::spider(FF::twist(a.len(), b.len()), FF::identity(a.len() + b.len()), b.coproduct(&a));
    PV::List(vec![pv_oh(&id), pv_opt_oh(id_sp), pv_oh(&tw), pv_opt_oh(tw_sp)])
}

// ------------------------------------------------------------------ C06 (finite functions)
pub fn pv_ff(f: &FF) -> PV {
    PV::FF(rd_ff(f))
}
pub fn pv_opt_ff(f: Option<FF>) -> PV {
    match f {
        None => PV::None,
        Some(f) => PV::Some(Box::new(pv_ff(&f))),
    }
}
fn ki(inp: &PV, i: usize) -> <K as ArrayKind>::I {
    K::mk_i(inp.at(i).t())
}
pub fn c06_compose(inp: &PV) -> PV {
    let (f, g) = (ff_raw(inp.at(0).ff()), ff_raw(inp.at(1).ff()));
    PV::List(vec![pv_opt_ff(f.compose(&g)), pv_opt_ff(&f >> &g)])
}
pub fn c06_basic(inp: &PV) -> PV {
    // inputs: a, b, x scalars
    let (a, b, x) = (ki(inp, 0), ki(inp, 1), ki(inp, 2));
    PV::List(vec![
        pv_ff(&FF::identity(a.clone())),
        pv_ff(&FF::initial(a.clone())),
        pv_ff(&FF::terminal(a.clone())),
        pv_ff(&FF::constant(a.clone(), x.clone(), b.clone())),
        pv_ff(&FF::inj0(a.clone(), b.clone())),
        pv_ff(&FF::inj1(a.clone(), b.clone())),
        pv_ff(&FF::twist(a.clone(), b.clone())),
        PV::T(K::rd_i(&FF::initial_object())),
        PV::T(K::rd_i(&<FF as Monoidal>::unit())),
    ])
}
pub fn c06_transpose(inp: &PV) -> PV {
    let (a, b) = (ki(inp, 0), ki(inp, 1));
    let t = FF::transpose(a.clone(), b.clone());
    let u = FF::transpose(b, a);
    PV::List(vec![pv_ff(&t), pv_opt_ff(t.compose(&u))])
}
pub fn c06_unary(inp: &PV) -> PV {
    // inputs: f, a (scalar), labels (len = f.target concrete case)
    let f = ff_raw(inp.at(0).ff());
    let a = ki(inp, 1);
    PV::List(vec![
        pv_ff(&f.inject0(a.clone())),
        pv_ff(&f.inject1(a.clone())),
        pv_ff(&f.to_initial()),
        pv_ff(&f.cumulative_sum()),
        pv_bool(f.is_injective()),
        PV::T(K::rd_i(&f.source())),
        PV::T(K::rd_i(&f.target())),
        pv_opt_ff(f.compose(&FF::inj0(f.target(), a.clone()))),
        pv_opt_ff(f.compose(&FF::inj1(a.clone(), f.target()))),
    ])
}
pub fn c06_binary(inp: &PV) -> PV {
    let (f, g) = (ff_raw(inp.at(0).ff()), ff_raw(inp.at(1).ff()));
    PV::List(vec![pv_opt_ff(f.coproduct(&g)), pv_opt_ff(&f + &g), pv_ff(&f.tensor(&g)), pv_ff(&(&f | &g)), pv_bool(f == g)])
}
pub fn c06_semifinite(inp: &PV) -> PV {
    let f = ff_raw(inp.at(0).ff());
    let l = sl(&inp.at(1).ts());
    let r = compose_semifinite(&f, &l);
    let r2 = &f >> &l;
    let p = |r: Option<SL>| match r {
        None => PV::None,
        Some(x) => PV::Some(Box::new(pv_labels(&x))),
    };
    PV::List(vec![p(r), p(r2)])
}
pub fn c06_injections(inp: &PV) -> PV {
    let (s, a) = (ff_raw(inp.at(0).ff()), ff_raw(inp.at(1).ff()));
    pv_opt_ff(s.injections(&a))
}
pub fn c06_coequalizer(inp: &PV) -> PV {
    let (f, g) = (ff_raw(inp.at(0).ff()), ff_raw(inp.at(1).ff()));
    pv_opt_ff(f.coequalizer(&g))
}
pub fn c06_universal(inp: &PV) -> PV {
    let (q, f) = (ff_raw(inp.at(0).ff()), ff_raw(inp.at(1).ff()));
    let l = K::mk_ls(&inp.at(2).ts());
    let a = q.coequalizer_universal(&f);
    let b = coequalizer_universal::<K, L>(&q, &l);
    PV::List(vec![
        pv_opt_ff(a),
        match b {
            None => PV::None,
            Some(x) => PV::Some(Box::new(PV::of_ts(&K::rd_ls(&x)))),
        },
    ])
}

// ------------------------------------------------------------------ C08 (segmented arrays)
pub fn pv_icf(c: &ICF) -> PV {
    PV::IC(rd_icf(c))
}
pub fn pv_icl(c: &ICL) -> PV {
    PV::IC(rd_icl(c))
}
fn pv_opt<X>(o: Option<X>, f: impl Fn(&X) -> PV) -> PV {
    match o {
        None => PV::None,
        Some(x) => PV::Some(Box::new(f(&x))),
    }
}
/// checked constructors on raw data: inputs [sizes FF (raw), values FF (raw)]
pub fn c08_new(inp: &PV) -> PV {
    let (src, vals) = (ff_raw(inp.at(0).ff()), ff_raw(inp.at(1).ff()));
    let a = IndexedCoproduct::new(src.clone(), vals.clone());
    let b = IndexedCoproduct::from_semifinite(SemifiniteFunction(src.table.clone().into()), vals.clone());
    let c = IndexedCoproduct::from_semifinite(SemifiniteFunction(src.table.clone().into()), sl(&inp.at(2).ts()));
    PV::List(vec![pv_opt(a, pv_icf), pv_opt(b, pv_icf), pv_opt(c, pv_icl)])
}
pub fn c08_ctor(inp: &PV) -> PV {
    let vals = ff_raw(inp.at(0).ff());
    let labels = sl(&inp.at(1).ts());
    let t = ki(inp, 2);
    PV::List(vec![
        pv_icf(&ICF::singleton(vals.clone())),
        pv_icf(&ICF::elements(vals.clone())),
        pv_icf(&ICF::initial(t)),
        pv_icl(&ICL::singleton(labels.clone())),
        pv_icl(&ICL::elements(labels)),
    ])
}
pub fn c08_binary(inp: &PV) -> PV {
    let (a, b) = (icf(inp.at(0).ic()), icf(inp.at(1).ic()));
    let (la, lb) = (icl(inp.at(2).ic()), icl(inp.at(3).ic()));
    PV::List(vec![pv_opt(a.coproduct(&b), pv_icf), pv_icf(&a.tensor(&b)), pv_opt(la.coproduct(&lb), pv_icl), PV::T(K::rd_i(&a.len())), pv_bool(a == b)])
}
pub fn c08_reindex(inp: &PV) -> PV {
    let (a, la) = (icf(inp.at(0).ic()), icl(inp.at(1).ic()));
    let x = ff_raw(inp.at(2).ff());
    PV::List(vec![
        pv_opt(a.map_indexes(&x), pv_icf),
        pv_opt(a.indexed_values(&x), pv_ff),
        pv_opt(la.map_indexes(&x), pv_icl),
        pv_opt(la.indexed_values(&x), |l| pv_labels(l)),
    ])
}
pub fn c08_mapvals(inp: &PV) -> PV {
    let a = icf(inp.at(0).ic());
    let f = ff_raw(inp.at(1).ff());
    let l = sl(&inp.at(2).ts());
    PV::List(vec![pv_opt(a.map_values(&f), pv_icf), pv_opt(a.map_semifinite(&l), pv_icl)])
}
pub fn c08_flatmap(inp: &PV) -> PV {
    let (a, b) = (icf(inp.at(0).ic()), icf(inp.at(1).ic()));
    pv_icf(&a.flatmap(&b))
}
pub fn c08_flatmap_sources(inp: &PV) -> PV {
    let (a, b, lb) = (icf(inp.at(0).ic()), icf(inp.at(1).ic()), icl(inp.at(2).ic()));
    PV::List(vec![pv_icf(&a.flatmap_sources(&b)), pv_icl(&a.flatmap_sources(&lb))])
}
pub fn c08_iter(inp: &PV) -> PV {
    let (a, la) = (icf(inp.at(0).ic()), icl(inp.at(1).ic()));
    let usz = |n: usize| PV::T(tm::c(n as u64, crate::explore::iw()));
    let mut out = vec![];
    {
        let mut it = a.into_iter();
        let mut items = vec![];
        let mut lens = vec![];
        loop {
            let (lo, hi) = it.size_hint();
            lens.push(PV::List(vec![usz(it.len()), usz(lo), match hi { Some(h) => usz(h), None => PV::None }]));
            match it.next() {
                Some(x) => items.push(pv_ff(&x)),
                None => break,
            }
            if items.len() > 16 {
                break;
            }
        }
        out.push(PV::List(items));
        out.push(PV::List(lens));
    }
    {
        let mut it = la.into_iter();
        let mut items = vec![];
        let mut lens = vec![];
        loop {
            let (lo, hi) = it.size_hint();
            lens.push(PV::List(vec![usz(it.len()), usz(lo), match hi { Some(h) => usz(h), None => PV::None }]));
            match it.next() {
                Some(x) => items.push(pv_labels(&x)),
                None => break,
            }
            if items.len() > 16 {
                break;
            }
        }
        out.push(PV::List(items));
        out.push(PV::List(lens));
    }
    PV::List(out)
}
