// This file is `include!`d twice: in `crate::sym` (K = SymKind: symbolic execution of the real
// generic code) and in `crate::nat` (K = the library's own VecKind: native execution, used for
// replays and encoder validation). Only the aliases K, L, V differ.
#[allow(unused_imports)]
use crate::conv::Conv;
#[allow(unused_imports)]
use crate::plain::*;
#[allow(unused_imports)]
use crate::term::{self as tm, T};
#[allow(unused_imports)]
use open_hypergraphs::array::*;
#[allow(unused_imports)]
use open_hypergraphs::category::*;
#[allow(unused_imports)]
use open_hypergraphs::finite_function::*;
#[allow(unused_imports)]
use open_hypergraphs::indexed_coproduct::*;
#[allow(unused_imports)]
use open_hypergraphs::operations::Operations;
#[allow(unused_imports)]
use open_hypergraphs::semifinite::*;
#[allow(unused_imports)]
use open_hypergraphs::strict::hypergraph::*;
#[allow(unused_imports)]
use open_hypergraphs::strict::open_hypergraph::{InvalidOpenHypergraph, OpenHypergraph};

pub type FF = FiniteFunction<K>;
pub type ICF = IndexedCoproduct<K, FiniteFunction<K>>;
pub type ICL = IndexedCoproduct<K, SemifiniteFunction<K, L>>;
pub type SL = SemifiniteFunction<K, L>;
pub type H = Hypergraph<K, L, L>;
pub type OH = OpenHypergraph<K, L, L>;

// ------------------------------------------------------------------ building real values from plain data
/// unchecked construction (fields are public): exactly the raw data, well-formed or not
pub fn ff_raw(r: &RawFF) -> FF {
    FiniteFunction { table: K::mk_ix(&r.table), target: K::mk_i(r.target) }
}
pub fn sl(ts: &[T]) -> SL {
    SemifiniteFunction(K::mk_ls(ts))
}
/// through the checked constructors (panics if the raw data is not well-formed)
pub fn icf(r: &RawIC) -> ICF {
    let values = FiniteFunction::new(K::mk_ix(&r.vals), K::mk_i(r.vals_target)).expect("gen: values in range");
    IndexedCoproduct::from_semifinite(SemifiniteFunction(K::mk_ix(&r.sizes).into()), values).expect("gen: sizes sum to value length")
}
pub fn icl(r: &RawIC) -> ICL {
    IndexedCoproduct::from_semifinite(SemifiniteFunction(K::mk_ix(&r.sizes).into()), sl(&r.vals)).expect("gen: sizes sum to value length")
}
pub fn hg(r: &RawH) -> H {
    Hypergraph::new(icf(&r.s), icf(&r.t), sl(&r.w), sl(&r.x)).expect("gen: well-formed hypergraph")
}
pub fn oh(r: &RawOH) -> OH {
    let s = FiniteFunction::new(K::mk_ix(&r.s.table), K::mk_i(r.s.target)).expect("gen: source leg in range");
    let t = FiniteFunction::new(K::mk_ix(&r.t.table), K::mk_i(r.t.target)).expect("gen: target leg in range");
    OpenHypergraph::new(s, t, hg(&r.h)).expect("gen: well-formed open hypergraph")
}

// ------------------------------------------------------------------ reading real values back
pub fn rd_ff(f: &FF) -> RawFF {
    RawFF { table: K::rd_ix(&f.table), target: K::rd_i(&f.target) }
}
pub fn rd_icf(c: &ICF) -> RawIC {
    RawIC { sizes: K::rd_ix(&c.sources.table), sizes_target: K::rd_i(&c.sources.target), vals: K::rd_ix(&c.values.table), vals_target: K::rd_i(&c.values.target) }
}
pub fn rd_icl(c: &ICL) -> RawIC {
    RawIC { sizes: K::rd_ix(&c.sources.table), sizes_target: K::rd_i(&c.sources.target), vals: K::rd_ls(&c.values.0), vals_target: tm::c(0, crate::explore::iw()) }
}
pub fn rd_h(h: &H) -> RawH {
    RawH { s: rd_icf(&h.s), t: rd_icf(&h.t), w: K::rd_ls(&h.w.0), x: K::rd_ls(&h.x.0) }
}
pub fn rd_oh(f: &OH) -> RawOH {
    RawOH { s: rd_ff(&f.s), t: rd_ff(&f.t), h: rd_h(&f.h) }
}
pub fn pv_opt_oh(r: Option<OH>) -> PV {
    match r {
        None => PV::None,
        Some(f) => PV::Some(Box::new(PV::OH(rd_oh(&f)))),
    }
}

// ------------------------------------------------------------------ C01
pub fn c01_compose(f: &RawOH, g: &RawOH) -> PV {
    let (f, g) = (oh(f), oh(g));
    pv_opt_oh(f.compose(&g))
}
