//! Re-execution DFS path explorer. The code under test runs natively over symbolic values;
//! every comparison it makes on a symbolic value calls `branch`, every data-dependent length
//! calls `concretize`. The explorer follows the solver's current model (so one side of each
//! branch costs no query), asks the solver whether the other side is feasible, and later
//! re-executes the body with the flipped decision.
use crate::solver::{Sat, Solver};
use crate::term::*;
use std::cell::RefCell;
use std::panic::{catch_unwind, resume_unwind, AssertUnwindSafe};
use std::time::{Duration, Instant};

#[derive(Clone, Copy, PartialEq, Eq, Debug)]
pub enum Profile {
    /// overflow/underflow of index arithmetic is a panic (the profile the test suite runs)
    Dev,
    /// wrapping arithmetic
    Release,
}

#[derive(Clone, Debug)]
pub struct Cfg {
    pub iw: u8,
    pub lw: u8,
    pub vw: u8,
    pub profile: Profile,
    /// C20: resolve the open choices of the array contract adversarially
    pub adv_argsort: bool,
    pub adv_cc: bool,
    pub adv_keys: bool,
    pub adv_filler: bool,
    pub query_timeout_ms: u64,
    /// replay mode: force every declared variable to this recorded value (single path)
    pub pin: Option<std::sync::Arc<Vec<u64>>>,
    pub pin_choices: Option<std::sync::Arc<Vec<usize>>>,
}

impl Default for Cfg {
    fn default() -> Self {
        Cfg {
            iw: 8,
            lw: 8,
            vw: 64,
            profile: Profile::Dev,
            adv_argsort: false,
            adv_cc: false,
            adv_keys: false,
            adv_filler: false,
            query_timeout_ms: 120_000,
            pin: None,
            pin_choices: None,
        }
    }
}
impl Cfg {
    pub fn adversarial(&self) -> bool {
        self.adv_argsort || self.adv_cc || self.adv_keys || self.adv_filler
    }
}

#[derive(Clone, Debug)]
enum Choice {
    Bool { val: bool, other: bool },
    Int { val: u64, tried: Vec<u64>, advance: bool },
    /// enumerated alternative 0..n, all feasible by construction (no solver involved)
    Enum { val: usize, n: usize },
}

#[derive(Default, Clone, Debug)]
pub struct Stats {
    pub paths: u64,
    pub infeasible: u64,
    pub decisions: u64,
    pub forks: u64,
    pub enumerated: u64,
    pub queries: u64,
    pub solver_s: f64,
    pub incomplete: Option<String>,
}

pub struct Ctx {
    pub solver: Solver,
    trace: Vec<Choice>,
    pos: usize,
    pub model: Vec<u64>,
    pub model_valid: bool,
    pub cfg: Cfg,
    pub stats: Stats,
    pub pc: Vec<T>,
    /// (variable, exclusive upper bound) constraints asserted at declaration
    pub bounds: Vec<(T, u64)>,
    /// conditions already decided on this path (implied by the path condition)
    known: std::collections::HashMap<T, bool>,
    pub choices: Vec<usize>,
    deadline: Option<Instant>,
    q0: u64,
    t0: f64,
}

thread_local! {
    pub static CTX: RefCell<Option<Ctx>> = RefCell::new(None);
    static SOLVER_POOL: RefCell<Option<Solver>> = RefCell::new(None);
}

/// panic payloads used for control flow by the engine
pub struct Exhausted;
pub struct Infeasible;
pub struct Inconclusive(pub String);

pub fn with_ctx<R>(f: impl FnOnce(&mut Ctx) -> R) -> R {
    CTX.with(|c| f(c.borrow_mut().as_mut().expect("no exploration context on this thread")))
}
pub fn has_ctx() -> bool {
    CTX.with(|c| c.borrow().is_some())
}
pub fn cfg() -> Cfg {
    with_ctx(|c| c.cfg.clone())
}
pub fn iw() -> u8 {
    CTX.with(|c| c.borrow().as_ref().map(|c| c.cfg.iw).unwrap_or(8))
}
pub fn lw() -> u8 {
    CTX.with(|c| c.borrow().as_ref().map(|c| c.cfg.lw).unwrap_or(8))
}
pub fn vw() -> u8 {
    CTX.with(|c| c.borrow().as_ref().map(|c| c.cfg.vw).unwrap_or(64))
}

fn emit_and<R>(c: &mut Ctx, t: T, f: impl FnOnce(&mut Ctx, String) -> R) -> R {
    let mut defs = String::new();
    let name = st(|s| {
        s.emit_defs(t, &mut defs);
        s.name(t)
    });
    if !defs.is_empty() {
        c.solver.send(defs.trim_end());
    }
    f(c, name)
}

/// add `t` to the path condition
pub fn assume(t: T) {
    if t == TRUE {
        return;
    }
    if t == FALSE {
        std::panic::panic_any(Infeasible);
    }
    with_ctx(|c| {
        emit_and(c, t, |c, name| c.solver.send(&format!("(assert {})", name)));
        c.pc.push(t);
        if c.model_valid {
            let m = std::mem::take(&mut c.model);
            let v = st(|s| s.eval(t, &m));
            c.model = m;
            if v == 0 {
                c.model_valid = false;
            }
        }
    })
}

/// declare a fresh bit-vector variable; `ub` = exclusive upper bound (asserted)
pub fn fresh(name: &str, w: u8, ub: Option<u64>) -> T {
    if let Some(0) = ub {
        std::panic::panic_any(Infeasible);
    }
    let t = with_ctx(|c| {
        let (t, decl) = st(|s| {
            let t = s.var(name, w, ub);
            let id = (s.vars.len() - 1) as u32;
            (t, s.var_decl(id))
        });
        c.solver.send(&decl);
        c.model.push(0);
        // memoised evaluations stay correct: the new variable occurs in no older term
        t
    });
    if let Some(n) = ub {
        if n <= mask(w) {
            let b = c(n, w);
            // interval folding would make `ult` TRUE; assert the raw constraint for the solver
            with_ctx(|cx| {
                let name = st(|s| s.name(t));
                let bn = st(|s| s.name(b));
                cx.solver.send(&format!("(assert (bvult {} {}))", name, bn));
                cx.bounds.push((t, n));
            });
        }
    }
    apply_pin(t);
    t
}
fn apply_pin(t: T) {
    let pin = with_ctx(|c| c.cfg.pin.clone());
    if let Some(m) = pin {
        let (id, w) = st(|s| ((s.vars.len() - 1), s.width(t)));
        let v = m.get(id).copied().unwrap_or(0);
        if w == 0 {
            assume(if v != 0 { t } else { not(t) });
        } else {
            assume(eq(t, c(v & mask(w), w)));
        }
    }
}
pub fn fresh_bool(name: &str) -> T {
    let t = with_ctx(|c| {
        let (t, decl) = st(|s| {
            let t = s.bvar(name);
            let id = (s.vars.len() - 1) as u32;
            (t, s.var_decl(id))
        });
        c.solver.send(&decl);
        c.model.push(0);
        t
    });
    apply_pin(t);
    t
}

fn fetch_model(c: &mut Ctx) {
    let names: Vec<String> = st(|s| s.vars.iter().map(|v| v.0.clone()).collect());
    c.model = c.solver.get_values(&names);
    c.model_valid = true;
    st(|s| s.new_stamp());
}

fn check_deadline(c: &Ctx) {
    if let Some(d) = c.deadline {
        if Instant::now() > d {
            std::panic::panic_any(Inconclusive("shape budget exhausted".into()));
        }
    }
}

/// make sure `ctx.model` satisfies the current path condition
pub fn ensure_model() {
    with_ctx(|c| {
        if c.model_valid {
            return;
        }
        check_deadline(c);
        match c.solver.check() {
            Sat::Sat => fetch_model(c),
            Sat::Unsat => std::panic::panic_any(Infeasible),
            Sat::Unknown => std::panic::panic_any(Inconclusive("solver returned unknown (path feasibility)".into())),
        }
    })
}

/// value of a term under the current model of the path condition
pub fn model_value(t: T) -> u64 {
    ensure_model();
    with_ctx(|c| {
        let m = std::mem::take(&mut c.model);
        let v = st(|s| s.eval(t, &m));
        c.model = m;
        v
    })
}
pub fn current_model() -> Vec<u64> {
    ensure_model();
    with_ctx(|c| c.model.clone())
}

/// is `pc ∧ t` satisfiable? On Sat optionally returns the model.
pub fn check_sat_with(t: T, want_model: bool) -> (Sat, Option<Vec<u64>>) {
    if t == FALSE {
        return (Sat::Unsat, None);
    }
    with_ctx(|c| {
        check_deadline(c);
        emit_and(c, t, |c, name| {
            c.solver.send("(push 1)");
            c.solver.send(&format!("(assert {})", name));
            let r = c.solver.check();
            let m = if r == Sat::Sat && want_model {
                let names: Vec<String> = st(|s| s.vars.iter().map(|v| v.0.clone()).collect());
                Some(c.solver.get_values(&names))
            } else {
                None
            };
            c.solver.send("(pop 1)");
            (r, m)
        })
    })
}

/// Decide a symbolic condition, forking when both outcomes are feasible.
pub fn branch(cond: T) -> bool {
    if cond == TRUE {
        return true;
    }
    if cond == FALSE {
        return false;
    }
    if let Some(v) = with_ctx(|c| c.known.get(&cond).copied()) {
        return v;
    }
    let replay = with_ctx(|c| {
        if c.pos < c.trace.len() {
            let v = match &c.trace[c.pos] {
                Choice::Bool { val, .. } => *val,
                _ => panic!("ENGINE-ERROR: trace mismatch (expected Bool)"),
            };
            c.pos += 1;
            Some(v)
        } else {
            None
        }
    });
    let v = match replay {
        Some(v) => v,
        None => {
            let m = model_value(cond) != 0;
            let other_t = if m { not(cond) } else { cond };
            let (r, _) = check_sat_with(other_t, false);
            let other = match r {
                Sat::Sat => true,
                Sat::Unsat => false,
                Sat::Unknown => std::panic::panic_any(Inconclusive("solver returned unknown (branch feasibility)".into())),
            };
            with_ctx(|c| {
                c.trace.push(Choice::Bool { val: m, other });
                c.pos += 1;
                c.stats.decisions += 1;
                if other {
                    c.stats.forks += 1;
                }
            });
            m
        }
    };
    let nc = not(cond);
    with_ctx(|c| {
        c.known.insert(cond, v);
        c.known.insert(nc, !v);
    });
    assume(if v { cond } else { nc });
    v
}

/// Pick a concrete value for a term, forking over all feasible values.
pub fn concretize(term: T) -> u64 {
    if let Some(v) = as_const(term) {
        return v;
    }
    let w = width(term);
    enum R {
        Val(u64),
        Advance(Vec<u64>),
        New,
    }
    let r = with_ctx(|c| {
        if c.pos < c.trace.len() {
            match &c.trace[c.pos] {
                Choice::Int { val, tried, advance } => {
                    if !*advance {
                        c.pos += 1;
                        R::Val(*val)
                    } else {
                        R::Advance(tried.clone())
                    }
                }
                _ => panic!("ENGINE-ERROR: trace mismatch (expected Int)"),
            }
        } else {
            R::New
        }
    });
    let v = match r {
        R::Val(v) => v,
        R::New => {
            let v = model_value(term);
            with_ctx(|c| {
                c.trace.push(Choice::Int { val: v, tried: vec![v], advance: false });
                c.pos += 1;
                c.stats.decisions += 1;
            });
            v
        }
        R::Advance(tried) => {
            let excl = and(tried.iter().map(|t| ne(term, c(*t, w))).collect());
            let (r, m) = check_sat_with(excl, true);
            match r {
                Sat::Sat => {
                    let m = m.unwrap();
                    let v = st(|s| {
                        s.new_stamp();
                        s.eval(term, &m)
                    });
                    with_ctx(|c| {
                        c.model = m;
                        c.model_valid = true;
                        let mut tried = tried;
                        tried.push(v);
                        let p = c.pos;
                        c.trace[p] = Choice::Int { val: v, tried, advance: false };
                        c.pos += 1;
                        c.stats.forks += 1;
                    });
                    v
                }
                Sat::Unsat => std::panic::panic_any(Exhausted),
                Sat::Unknown => std::panic::panic_any(Inconclusive("solver returned unknown (concretize)".into())),
            }
        }
    };
    assume(eq(term, c(v, w)));
    v
}

/// Enumerated choice among `n` alternatives that are all feasible by construction (used for the
/// node identifiers of `lax` diagrams, which are concrete `usize` in the library): the explorer
/// visits every alternative; no solver query is involved. In replay mode (`cfg.pin`) the recorded
/// choices are read from the tail of the pinned model.
pub fn choose(n: usize) -> usize {
    if n == 0 {
        std::panic::panic_any(Infeasible);
    }
    if n == 1 {
        return 0;
    }
    with_ctx(|c| {
        let v = if c.pos < c.trace.len() {
            match &c.trace[c.pos] {
                Choice::Enum { val, .. } => *val,
                _ => panic!("ENGINE-ERROR: trace mismatch (expected Enum)"),
            }
        } else {
            // a pinned prefix of choices (job splitting, replay) is forced; the rest is enumerated
            let forced = c.cfg.pin_choices.as_ref().and_then(|p| p.get(c.choices.len()).copied());
            let v = forced.unwrap_or(0).min(n - 1);
            c.trace.push(Choice::Enum { val: v, n: if forced.is_some() { v + 1 } else { n } });
            c.stats.enumerated += 1;
            v
        };
        c.pos += 1;
        c.choices.push(v);
        v
    })
}
/// the enumerated choices made so far on this path
pub fn choices() -> Vec<usize> {
    with_ctx(|c| c.choices.clone())
}

/// Run real code, turning its panics into `Err(message)`; engine control-flow payloads pass through.
pub fn catch<R>(f: impl FnOnce() -> R) -> Result<R, String> {
    match catch_unwind(AssertUnwindSafe(f)) {
        Ok(v) => Ok(v),
        Err(e) => {
            if e.is::<Exhausted>() || e.is::<Infeasible>() || e.is::<Inconclusive>() {
                resume_unwind(e);
            }
            let msg = if let Some(s) = e.downcast_ref::<String>() {
                s.clone()
            } else if let Some(s) = e.downcast_ref::<&str>() {
                s.to_string()
            } else {
                "panic (non-string payload)".to_string()
            };
            if msg.starts_with("SOLVER-ERROR") || msg.starts_with("ENGINE-ERROR") {
                resume_unwind(Box::new(msg));
            }
            Err(msg)
        }
    }
}

pub fn install_quiet_panic_hook() {
    std::panic::set_hook(Box::new(|info| {
        if std::env::var("SYMK_PANIC_TRACE").is_ok() {
            eprintln!("[panic] {}", info);
        }
    }));
}

/// Explore every feasible path of `body` under `cfg`. `body` returns one report per path.
/// Returns the reports, stats and (if the engine itself failed) an error string.
pub fn explore<R>(cfg: Cfg, budget: Option<Duration>, body: impl Fn() -> R) -> (Vec<R>, Stats, Option<String>) {
    // one solver process per worker thread, reset between jobs
    let solver = SOLVER_POOL.with(|p| p.borrow_mut().take());
    let solver = match solver {
        Some(mut s) if s.timeout_ms == cfg.query_timeout_ms => {
            s.reset();
            s
        }
        _ => Solver::new(cfg.query_timeout_ms),
    };
    let (q0, t0) = (solver.queries, solver.time.as_secs_f64());
    CTX.with(|c| {
        *c.borrow_mut() = Some(Ctx {
            solver,
            trace: vec![],
            pos: 0,
            model: vec![],
            model_valid: false,
            cfg,
            stats: Stats::default(),
            pc: vec![],
            bounds: vec![],
            known: Default::default(),
            choices: vec![],
            deadline: budget.map(|b| Instant::now() + b),
            q0,
            t0,
        })
    });
    let mut reports = vec![];
    let mut engine_error: Option<String> = None;
    loop {
        // the job budget also bounds pure enumeration (paths that never reach the solver)
        let over = with_ctx(|c| c.deadline.map_or(false, |d| Instant::now() > d));
        if over {
            with_ctx(|c| c.stats.incomplete = Some("shape budget exhausted".into()));
            break;
        }
        st(|s| s.reset());
        with_ctx(|c| {
            c.pos = 0;
            c.model.clear();
            // the empty model satisfies the empty path condition
            c.model_valid = true;
            c.pc.clear();
            c.bounds.clear();
            c.known.clear();
            c.choices.clear();
            c.solver.send("(push 1)");
        });
        let r = catch_unwind(AssertUnwindSafe(|| body()));
        let mut exhausted = false;
        let mut stop = false;
        match r {
            Ok(v) => {
                reports.push(v);
                with_ctx(|c| c.stats.paths += 1);
            }
            Err(e) => {
                if e.is::<Exhausted>() {
                    exhausted = true;
                } else if e.is::<Infeasible>() {
                    with_ctx(|c| c.stats.infeasible += 1);
                } else if let Some(Inconclusive(m)) = e.downcast_ref::<Inconclusive>() {
                    with_ctx(|c| c.stats.incomplete = Some(m.clone()));
                    stop = true;
                } else {
                    let msg = if let Some(s) = e.downcast_ref::<String>() {
                        s.clone()
                    } else if let Some(s) = e.downcast_ref::<&str>() {
                        s.to_string()
                    } else {
                        "panic".into()
                    };
                    engine_error = Some(format!("uncaught panic in check body: {}", msg));
                    stop = true;
                }
            }
        }
        let done = with_ctx(|c| {
            c.solver.send("(pop 1)");
            if stop {
                return true;
            }
            let keep = if exhausted { c.pos } else { c.pos.min(c.trace.len()) };
            c.trace.truncate(keep);
            loop {
                match c.trace.pop() {
                    None => return true,
                    Some(Choice::Bool { val, other: true }) => {
                        c.trace.push(Choice::Bool { val: !val, other: false });
                        return false;
                    }
                    Some(Choice::Bool { .. }) => continue,
                    Some(Choice::Int { val, tried, .. }) => {
                        c.trace.push(Choice::Int { val, tried, advance: true });
                        return false;
                    }
                    Some(Choice::Enum { val, n }) => {
                        if val + 1 < n {
                            c.trace.push(Choice::Enum { val: val + 1, n });
                            return false;
                        }
                        continue;
                    }
                }
            }
        });
        if done {
            break;
        }
    }
    let stats = with_ctx(|c| {
        c.stats.queries = c.solver.queries - c.q0;
        c.stats.solver_s = c.solver.time.as_secs_f64() - c.t0;
        c.stats.clone()
    });
    let ctx = CTX.with(|c| c.borrow_mut().take());
    if let Some(ctx) = ctx {
        if engine_error.is_none() && stats.incomplete.is_none() {
            SOLVER_POOL.with(|p| *p.borrow_mut() = Some(ctx.solver));
        }
    }
    (reports, stats, engine_error)
}

/// Self-contained SMT-LIB2 script for `pc ∧ extra` (for deciding the same obligation with a second solver).
pub fn standalone_script(extra: T) -> String {
    with_ctx(|c| {
        let mut asserts = c.pc.clone();
        asserts.push(extra);
        let mut s = st(|s| s.standalone(&asserts));
        let mut b = String::new();
        for (t, n) in &c.bounds {
            let (name, w) = st(|s| (s.name(*t), s.width(*t)));
            b.push_str(&format!("(assert (bvult {} (_ bv{} {})))\n", name, n, w));
        }
        s = s.replace("(check-sat)\n", &format!("{}(check-sat)\n", b));
        s
    })
}
