//! SMT-LIB2 pipe to an incremental solver process (z3-new by default).
use std::io::{BufRead, BufReader, Write};
use std::process::{Child, ChildStdin, ChildStdout, Command, Stdio};
use std::time::{Duration, Instant};

#[derive(Clone, Copy, PartialEq, Eq, Debug)]
pub enum Sat {
    Sat,
    Unsat,
    Unknown,
}

pub struct Solver {
    child: Child,
    inp: ChildStdin,
    out: BufReader<ChildStdout>,
    pub queries: u64,
    pub time: Duration,
    pub dump: Option<std::fs::File>,
    pub kind: String,
    pub timeout_ms: u64,
}

pub fn solver_cmd() -> String {
    std::env::var("SYMK_SOLVER").unwrap_or_else(|_| "z3-new".into())
}

impl Solver {
    pub fn new(timeout_ms: u64) -> Self {
        let kind = solver_cmd();
        let mut cmd = Command::new(&kind);
        if kind.contains("cvc5") {
            cmd.args(["--lang", "smt2", "--incremental", "--produce-models", &format!("--tlimit-per={}", timeout_ms)]);
        } else {
            cmd.args(["-in", "-smt2"]);
        }
        let mut child = cmd
            .stdin(Stdio::piped())
            .stdout(Stdio::piped())
            .stderr(Stdio::null())
            .spawn()
            .unwrap_or_else(|e| panic!("cannot start solver {}: {}", kind, e));
        let inp = child.stdin.take().unwrap();
        let out = BufReader::new(child.stdout.take().unwrap());
        let mut s = Solver { child, inp, out, queries: 0, time: Duration::ZERO, dump: None, kind: kind.clone(), timeout_ms };
        if let Ok(p) = std::env::var("SYMK_DUMP") {
            s.dump = std::fs::File::create(format!("{}.{:?}.smt2", p, std::thread::current().id())).ok();
        }
        s.prelude();
        s
    }
    fn prelude(&mut self) {
        self.send("(set-option :print-success false)");
        if !self.kind.contains("cvc5") {
            let t = self.timeout_ms;
            self.send(&format!("(set-option :timeout {})", t));
        }
        self.send("(set-logic QF_BV)");
    }
    pub fn reset(&mut self) {
        self.send("(reset)");
        self.prelude();
    }
    pub fn send(&mut self, cmd: &str) {
        if let Some(d) = self.dump.as_mut() {
            let _ = writeln!(d, "{}", cmd);
        }
        self.inp.write_all(cmd.as_bytes()).expect("solver pipe closed");
        self.inp.write_all(b"\n").unwrap();
    }
    fn read_line(&mut self) -> String {
        self.inp.flush().unwrap();
        let mut l = String::new();
        let n = self.out.read_line(&mut l).expect("solver read");
        if n == 0 {
            panic!("SOLVER-ERROR: solver process closed its output");
        }
        l.trim().to_string()
    }
    pub fn check(&mut self) -> Sat {
        self.queries += 1;
        let t0 = Instant::now();
        // SAT-based bit-blasting on the current assertion stack is ~5x faster than z3's incremental
        // SMT core on the hard (unsat) feasibility queries and equal on the many small ones
        if self.kind.contains("cvc5") || std::env::var("SYMK_PLAIN_CHECKSAT").is_ok() {
            self.send("(check-sat)");
        } else {
            self.send("(check-sat-using (then simplify propagate-values solve-eqs bit-blast sat))");
        }
        let l = self.read_line();
        self.time += t0.elapsed();
        match l.as_str() {
            "sat" => Sat::Sat,
            "unsat" => Sat::Unsat,
            "unknown" | "timeout" => Sat::Unknown,
            other => panic!("SOLVER-ERROR: unexpected answer to check-sat: {}", other),
        }
    }
    /// values of the named constants in the current model (after a `sat`)
    pub fn get_values(&mut self, names: &[String]) -> Vec<u64> {
        if names.is_empty() {
            return vec![];
        }
        let mut out = Vec::with_capacity(names.len());
        // chunk to keep lines manageable
        for chunk in names.chunks(64) {
            self.send(&format!("(get-value ({}))", chunk.join(" ")));
            // read until parentheses balance
            let mut text = String::new();
            let mut depth: i64 = 0;
            let mut started = false;
            loop {
                let l = self.read_line();
                if l.starts_with("(error") {
                    panic!("SOLVER-ERROR: {}", l);
                }
                for ch in l.chars() {
                    if ch == '(' {
                        depth += 1;
                        started = true;
                    } else if ch == ')' {
                        depth -= 1;
                    }
                }
                text.push_str(&l);
                text.push(' ');
                if started && depth <= 0 {
                    break;
                }
            }
            // parse tokens: each pair "(name value)"
            let toks: Vec<&str> = text
                .split(|c: char| c == '(' || c == ')' || c.is_whitespace())
                .filter(|s| !s.is_empty())
                .collect();
            let mut i = 0;
            let mut got = 0;
            while i + 1 < toks.len() && got < chunk.len() {
                let val = toks[i + 1];
                let v = if let Some(h) = val.strip_prefix("#x") {
                    u64::from_str_radix(h, 16).unwrap()
                } else if let Some(b) = val.strip_prefix("#b") {
                    u64::from_str_radix(b, 2).unwrap()
                } else if val == "true" {
                    1
                } else if val == "false" {
                    0
                } else if val == "_" {
                    // (_ bvN w)
                    let n = toks[i + 2].strip_prefix("bv").unwrap();
                    i += 2;
                    n.parse::<u64>().unwrap()
                } else {
                    panic!("SOLVER-ERROR: cannot parse value {:?} in {:?}", val, text)
                };
                out.push(v);
                got += 1;
                i += 2;
            }
            assert_eq!(got, chunk.len(), "SOLVER-ERROR: get-value returned {} of {} in {:?}", got, chunk.len(), text);
        }
        out
    }
}

impl Drop for Solver {
    fn drop(&mut self) {
        let _ = self.child.kill();
        let _ = self.child.wait();
    }
}

/// decide a standalone SMT-LIB2 script with another solver binary (cross-check)
pub fn decide_standalone(solver: &str, script: &str, timeout_s: u64) -> Sat {
    let mut cmd = Command::new(solver);
    if solver.contains("cvc5") {
        cmd.args(["--lang", "smt2", &format!("--tlimit={}", timeout_s * 1000)]);
    } else {
        cmd.args(["-in", "-smt2", &format!("-T:{}", timeout_s)]);
    }
    let mut child = match cmd.stdin(Stdio::piped()).stdout(Stdio::piped()).stderr(Stdio::null()).spawn() {
        Ok(c) => c,
        Err(_) => return Sat::Unknown,
    };
    {
        let mut i = child.stdin.take().unwrap();
        let _ = i.write_all(script.as_bytes());
    }
    let out = child.wait_with_output();
    match out {
        Ok(o) => {
            let s = String::from_utf8_lossy(&o.stdout);
            if s.contains("(error") {
                return Sat::Unknown;
            }
            match s.lines().next().map(|l| l.trim()) {
                Some("sat") => Sat::Sat,
                Some("unsat") => Sat::Unsat,
                _ => Sat::Unknown,
            }
        }
        Err(_) => Sat::Unknown,
    }
}
