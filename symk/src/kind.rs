//! `SymKind`: a third implementation of the library's public `ArrayKind` interface whose index
//! type is an SMT bit-vector term and whose arrays are vectors (of concrete length) of terms.
//! Running the library's generic code at this backend is symbolic execution of that code.
//!
//! Semantics of each primitive = its scalar specification lifted to terms. The open choices of
//! the contract (argsort tie order, component numbering, sparse-bincount key order, scatter
//! filler) are resolved the way `VecArray` does ("vec-faithful", closed terms) or, under the
//! `adv_*` flags of the exploration config, by the solver (adversarial; used for C20).
use crate::explore::*;
use crate::term::{self as tm, T};
use core::ops::{Add, BitAnd, BitXor, Mul, Neg, Sub};
use num_traits::{One, Zero};
use open_hypergraphs::array::*;
use std::cmp::Ordering;
use std::ops::RangeBounds;

// ------------------------------------------------------------------ scalars
#[derive(Clone, Copy)]
pub struct SymInt(pub T);

impl std::fmt::Debug for SymInt {
    fn fmt(&self, f: &mut std::fmt::Formatter<'_>) -> std::fmt::Result {
        match tm::as_const(self.0) {
            Some(v) => write!(f, "{}", v),
            None => write!(f, "<t{}>", self.0),
        }
    }
}

impl SymInt {
    pub fn c(v: u64) -> Self {
        SymInt(tm::c(v, iw()))
    }
    pub fn fresh(name: &str, ub: Option<u64>) -> Self {
        SymInt(fresh(name, iw(), ub))
    }
    pub fn konst(&self) -> Option<u64> {
        tm::as_const(self.0)
    }
    pub fn conc(&self) -> u64 {
        concretize(self.0)
    }
}

pub trait SymVal: Clone {
    fn ite(c: T, a: &Self, b: &Self) -> Self;
    fn eq_t(&self, o: &Self) -> T;
    fn fresh_like(&self, name: &str) -> Self;
    fn term(&self) -> T;
    fn from_term(t: T) -> Self;
}
impl SymVal for SymInt {
    fn ite(c: T, a: &Self, b: &Self) -> Self {
        SymInt(tm::ite(c, a.0, b.0))
    }
    fn eq_t(&self, o: &Self) -> T {
        tm::eq(self.0, o.0)
    }
    fn fresh_like(&self, name: &str) -> Self {
        SymInt(fresh(name, iw(), None))
    }
    fn term(&self) -> T {
        self.0
    }
    fn from_term(t: T) -> Self {
        SymInt(t)
    }
}

/// Labels: compared only for equality, otherwise unconstrained.
#[derive(Clone, Copy)]
pub struct Lab(pub T);
impl std::fmt::Debug for Lab {
    fn fmt(&self, f: &mut std::fmt::Formatter<'_>) -> std::fmt::Result {
        match tm::as_const(self.0) {
            Some(v) => write!(f, "L{}", v),
            None => write!(f, "<L t{}>", self.0),
        }
    }
}
impl Lab {
    pub fn c(v: u64) -> Self {
        Lab(tm::c(v, lw()))
    }
    pub fn fresh(name: &str) -> Self {
        Lab(fresh(name, lw(), None))
    }
    pub fn conc(&self) -> u64 {
        concretize(self.0)
    }
}
impl SymVal for Lab {
    fn ite(c: T, a: &Self, b: &Self) -> Self {
        Lab(tm::ite(c, a.0, b.0))
    }
    fn eq_t(&self, o: &Self) -> T {
        tm::eq(self.0, o.0)
    }
    fn fresh_like(&self, name: &str) -> Self {
        Lab(fresh(name, lw(), None))
    }
    fn term(&self) -> T {
        self.0
    }
    fn from_term(t: T) -> Self {
        Lab(t)
    }
}
impl PartialEq for Lab {
    fn eq(&self, o: &Self) -> bool {
        branch(tm::eq(self.0, o.0))
    }
}

/// Evaluation values: the wrapping ring Z/2^vw with and/xor.
#[derive(Clone, Copy)]
pub struct Val(pub T);
impl std::fmt::Debug for Val {
    fn fmt(&self, f: &mut std::fmt::Formatter<'_>) -> std::fmt::Result {
        match tm::as_const(self.0) {
            Some(v) => write!(f, "V{}", v),
            None => write!(f, "<V t{}>", self.0),
        }
    }
}
impl Val {
    pub fn c(v: u64) -> Self {
        Val(tm::c(v & tm::mask(vw()), vw()))
    }
    pub fn fresh(name: &str) -> Self {
        Val(fresh(name, vw(), None))
    }
}
impl Default for Val {
    fn default() -> Self {
        Val::c(0)
    }
}
impl SymVal for Val {
    fn ite(c: T, a: &Self, b: &Self) -> Self {
        Val(tm::ite(c, a.0, b.0))
    }
    fn eq_t(&self, o: &Self) -> T {
        tm::eq(self.0, o.0)
    }
    fn fresh_like(&self, name: &str) -> Self {
        Val(fresh(name, vw(), None))
    }
    fn term(&self) -> T {
        self.0
    }
    fn from_term(t: T) -> Self {
        Val(t)
    }
}
impl Add for Val {
    type Output = Val;
    fn add(self, o: Val) -> Val {
        Val(tm::add(self.0, o.0))
    }
}
impl Sub for Val {
    type Output = Val;
    fn sub(self, o: Val) -> Val {
        Val(tm::sub(self.0, o.0))
    }
}
impl Mul for Val {
    type Output = Val;
    fn mul(self, o: Val) -> Val {
        Val(tm::mul(self.0, o.0))
    }
}
impl Neg for Val {
    type Output = Val;
    fn neg(self) -> Val {
        Val(tm::sub(tm::c(0, vw()), self.0))
    }
}
impl BitAnd for Val {
    type Output = Val;
    fn bitand(self, o: Val) -> Val {
        Val(tm::band(self.0, o.0))
    }
}
impl BitXor for Val {
    type Output = Val;
    fn bitxor(self, o: Val) -> Val {
        Val(tm::bxor(self.0, o.0))
    }
}

impl PartialEq for SymInt {
    fn eq(&self, o: &Self) -> bool {
        branch(tm::eq(self.0, o.0))
    }
}
impl Eq for SymInt {}
impl PartialOrd for SymInt {
    fn partial_cmp(&self, o: &Self) -> Option<Ordering> {
        Some(self.cmp(o))
    }
    fn lt(&self, o: &Self) -> bool {
        branch(tm::ult(self.0, o.0))
    }
    fn le(&self, o: &Self) -> bool {
        branch(tm::ule(self.0, o.0))
    }
    fn gt(&self, o: &Self) -> bool {
        branch(tm::ult(o.0, self.0))
    }
    fn ge(&self, o: &Self) -> bool {
        branch(tm::ule(o.0, self.0))
    }
}
impl Ord for SymInt {
    fn cmp(&self, o: &Self) -> Ordering {
        if self.lt(o) {
            Ordering::Less
        } else if self == o {
            Ordering::Equal
        } else {
            Ordering::Greater
        }
    }
}

fn dev() -> bool {
    cfg().profile == Profile::Dev
}

impl Add for SymInt {
    type Output = SymInt;
    fn add(self, o: SymInt) -> SymInt {
        let r = tm::add(self.0, o.0);
        let (ia, ib) = (tm::interval(self.0), tm::interval(o.0));
        let fits = ia.1.checked_add(ib.1).map_or(false, |h| h <= tm::mask(iw()));
        if !fits && dev() && branch(tm::ult(r, self.0)) {
            panic!("attempt to add with overflow");
        }
        SymInt(r)
    }
}
impl Sub for SymInt {
    type Output = SymInt;
    fn sub(self, o: SymInt) -> SymInt {
        if dev() && branch(tm::ult(self.0, o.0)) {
            panic!("attempt to subtract with overflow");
        }
        SymInt(tm::sub(self.0, o.0))
    }
}
impl Mul for SymInt {
    type Output = SymInt;
    fn mul(self, o: SymInt) -> SymInt {
        if dev() && branch(tm::st(|s| s.mul_ovf(self.0, o.0))) {
            panic!("attempt to multiply with overflow");
        }
        SymInt(tm::mul(self.0, o.0))
    }
}
impl Zero for SymInt {
    fn zero() -> Self {
        SymInt::c(0)
    }
    fn is_zero(&self) -> bool {
        *self == SymInt::c(0)
    }
}
impl One for SymInt {
    fn one() -> Self {
        SymInt::c(1)
    }
}
impl From<usize> for SymInt {
    fn from(v: usize) -> Self {
        SymInt::c(v as u64)
    }
}
impl From<SymInt> for usize {
    fn from(v: SymInt) -> usize {
        v.conc() as usize
    }
}
impl Default for SymInt {
    fn default() -> Self {
        SymInt::c(0)
    }
}

// ------------------------------------------------------------------ arrays
#[derive(Clone, Debug)]
pub struct SymArray<X>(pub Vec<X>);

#[derive(Clone, Debug, PartialEq)]
pub struct SymKind;

impl ArrayKind for SymKind {
    type Type<X> = SymArray<X>;
    type I = SymInt;
    type Index = SymArray<SymInt>;
    type Slice<'a, X: 'a> = &'a [X];
}

impl<X: SymVal> PartialEq for SymArray<X> {
    fn eq(&self, o: &Self) -> bool {
        if self.0.len() != o.0.len() {
            return false;
        }
        branch(tm::and(self.0.iter().zip(o.0.iter()).map(|(a, b)| a.eq_t(b)).collect()))
    }
}
impl AsRef<SymArray<SymInt>> for SymArray<SymInt> {
    fn as_ref(&self) -> &Self {
        self
    }
}
impl AsMut<SymArray<SymInt>> for SymArray<SymInt> {
    fn as_mut(&mut self) -> &mut Self {
        self
    }
}

fn ci(v: usize) -> T {
    tm::c(v as u64, iw())
}

/// out-of-bounds obligation: panics (as `Vec` indexing does) on the paths where some index is `>= n`
fn oob(idx: &[SymInt], n: usize) {
    let bad = tm::or(idx.iter().map(|i| tm::uge(i.0, ci(n))).collect());
    if branch(bad) {
        panic!("index out of bounds: the len is {}", n);
    }
}

fn select<X: SymVal>(xs: &[X], i: &SymInt) -> X {
    if let Some(v) = i.konst() {
        return xs[v as usize].clone();
    }
    let (lo, hi) = tm::interval(i.0);
    let lo = lo as usize;
    let hi = (hi as usize).min(xs.len() - 1);
    let mut r = xs[hi].clone();
    for j in (lo..hi).rev() {
        r = X::ite(tm::eq(i.0, ci(j)), &xs[j], &r);
    }
    r
}

/// write `x` at symbolic position `i` of `ys`
fn store<X: SymVal>(ys: &mut [X], i: &SymInt, x: &X) {
    if let Some(v) = i.konst() {
        ys[v as usize] = x.clone();
        return;
    }
    let (lo, hi) = tm::interval(i.0);
    let hi = (hi as usize).min(ys.len().saturating_sub(1));
    for j in (lo as usize)..=hi {
        if j < ys.len() {
            ys[j] = X::ite(tm::eq(i.0, ci(j)), x, &ys[j]);
        }
    }
}

impl<X: SymVal> Array<SymKind, X> for SymArray<X> {
    fn empty() -> Self {
        SymArray(vec![])
    }
    fn len(&self) -> SymInt {
        SymInt::c(self.0.len() as u64)
    }
    fn from_slice(s: &[X]) -> Self {
        SymArray(s.to_vec())
    }
    fn concatenate(&self, o: &Self) -> Self {
        let mut v = self.0.clone();
        v.extend_from_slice(&o.0);
        SymArray(v)
    }
    fn fill(x: X, n: SymInt) -> Self {
        SymArray(vec![x; n.conc() as usize])
    }
    fn get(&self, i: SymInt) -> X {
        oob(std::slice::from_ref(&i), self.0.len());
        select(&self.0, &i)
    }
    fn get_range<R: RangeBounds<SymInt>>(&self, rb: R) -> &[X] {
        let r = self.to_range(rb);
        let (a, b) = (r.start.conc() as usize, r.end.conc() as usize);
        &self.0[a..b]
    }
    fn set_range<R: RangeBounds<SymInt>>(&mut self, rb: R, v: &SymArray<X>) {
        let r = self.to_range(rb);
        let (a, b) = (r.start.conc() as usize, r.end.conc() as usize);
        self.0[a..b].clone_from_slice(&v.0)
    }
    fn gather(&self, idx: &[SymInt]) -> Self {
        oob(idx, self.0.len());
        SymArray(idx.iter().map(|i| select(&self.0, i)).collect())
    }
    fn scatter(&self, idx: &[SymInt], n: SymInt) -> Self {
        if self.0.is_empty() {
            assert!(idx.is_empty());
            return SymArray(vec![]);
        }
        let n = n.conc() as usize;
        let filler = if cfg().adv_filler { self.0[0].fresh_like("fill") } else { self.0[0].clone() };
        let mut y = vec![filler; n];
        // `y[idx[i]] = x` for every element of self: idx[i] must exist and be < n
        let used: Vec<SymInt> = (0..self.0.len()).map(|i| idx[i]).collect();
        oob(&used, n);
        for (i, x) in self.0.iter().enumerate() {
            store(&mut y, &idx[i], x);
        }
        SymArray(y)
    }
    fn scatter_assign(&mut self, ixs: &SymArray<SymInt>, values: Self) {
        let k = ixs.0.len().min(values.0.len());
        oob(&ixs.0[..k], self.0.len());
        for (i, x) in ixs.0.iter().zip(values.0.iter()) {
            store(&mut self.0, i, x);
        }
    }
    fn scatter_assign_constant(&mut self, ixs: &SymArray<SymInt>, arg: X) {
        oob(&ixs.0, self.0.len());
        for i in ixs.0.iter() {
            store(&mut self.0, i, &arg);
        }
    }
}

impl Add<&SymArray<SymInt>> for SymInt {
    type Output = SymArray<SymInt>;
    fn add(self, rhs: &SymArray<SymInt>) -> SymArray<SymInt> {
        SymArray(rhs.0.iter().map(|x| *x + self).collect())
    }
}
impl Add for SymArray<SymInt> {
    type Output = Self;
    fn add(self, o: Self) -> Self {
        assert_eq!(self.0.len(), o.0.len());
        SymArray(self.0.into_iter().zip(o.0.into_iter()).map(|(a, b)| a + b).collect())
    }
}
impl Sub for SymArray<SymInt> {
    type Output = Self;
    fn sub(self, o: Self) -> Self {
        assert_eq!(self.0.len(), o.0.len());
        SymArray(self.0.into_iter().zip(o.0.into_iter()).map(|(a, b)| a - b).collect())
    }
}

fn cnt(conds: &[T]) -> T {
    tm::count(conds, iw())
}

/// a solver-chosen permutation of 0..n as fresh variables (only for small n)
fn fresh_perm(name: &str, n: usize) -> Vec<SymInt> {
    let p: Vec<SymInt> = (0..n).map(|_| SymInt::fresh(name, Some(n as u64))).collect();
    for i in 0..n {
        for j in 0..i {
            assume(tm::ne(p[i].0, p[j].0));
        }
    }
    p
}

impl OrdArray<SymKind, SymInt> for SymArray<SymInt> {
    fn argsort(&self) -> SymArray<SymInt> {
        let n = self.0.len();
        if n == 0 {
            return SymArray(vec![]);
        }
        if cfg().adv_argsort {
            // any permutation that sorts
            let p = fresh_perm("as", n);
            let g: Vec<SymInt> = p.iter().map(|i| select(&self.0, i)).collect();
            for i in 1..n {
                assume(tm::ule(g[i - 1].0, g[i].0));
            }
            return SymArray(p);
        }
        // stable sort (what `sort_by_key` does): position of i = #{j: x_j < x_i} + #{j < i: x_j = x_i}
        let pos: Vec<T> = (0..n)
            .map(|i| {
                let mut cs = vec![];
                for j in 0..n {
                    if j == i {
                        continue;
                    }
                    let lt = tm::ult(self.0[j].0, self.0[i].0);
                    cs.push(if j < i { tm::or2(lt, tm::eq(self.0[j].0, self.0[i].0)) } else { lt });
                }
                cnt(&cs)
            })
            .collect();
        let out = (0..n)
            .map(|k| {
                let mut r = ci(n - 1);
                for i in (0..n - 1).rev() {
                    r = tm::ite(tm::eq(pos[i], ci(k)), ci(i), r);
                }
                SymInt(r)
            })
            .collect();
        SymArray(out)
    }
}

impl NaturalArray<SymKind> for SymArray<SymInt> {
    fn max(&self) -> Option<SymInt> {
        let mut it = self.0.iter();
        let mut m = *it.next()?;
        for x in it {
            m = SymInt(tm::ite(tm::ult(m.0, x.0), x.0, m.0));
        }
        Some(m)
    }
    fn cumulative_sum(&self) -> Self {
        let mut v = Vec::with_capacity(self.0.len() + 1);
        let mut a = SymInt::c(0);
        for x in &self.0 {
            v.push(a);
            a = a + *x;
        }
        v.push(a);
        SymArray(v)
    }
    fn arange(start: &SymInt, stop: &SymInt) -> Self {
        assert!(stop >= start, "invalid range [{:?}, {:?})", start, stop);
        let n = (*stop - *start).conc();
        SymArray((0..n).map(|i| *start + SymInt::c(i)).collect())
    }
    fn repeat(&self, x: &[SymInt]) -> Self {
        assert_eq!(self.0.len(), x.len());
        let p = self.cumulative_sum();
        let total = p.0[self.0.len()].conc() as usize;
        let mut out = Vec::with_capacity(total);
        for pos in 0..total {
            // the segment i with p[i] <= pos < p[i+1]
            let mut r: Option<SymInt> = None;
            for i in (0..x.len()).rev() {
                let c = tm::and2(tm::ule(p.0[i].0, ci(pos)), tm::ult(ci(pos), p.0[i + 1].0));
                r = Some(match r {
                    None => x[i],
                    Some(prev) => SymInt(tm::ite(c, x[i].0, prev.0)),
                });
            }
            out.push(r.expect("repeat: positive total with no segments"));
        }
        SymArray(out)
    }
    fn quot_rem(&self, d: SymInt) -> (Self, Self) {
        assert!(d != SymInt::c(0));
        let q = self.0.iter().map(|x| SymInt(tm::udiv(x.0, d.0))).collect();
        let r = self.0.iter().map(|x| SymInt(tm::urem(x.0, d.0))).collect();
        (SymArray(q), SymArray(r))
    }
    fn mul_constant_add(&self, c: SymInt, x: &Self) -> Self {
        assert_eq!(self.0.len(), x.0.len());
        SymArray(self.0.iter().zip(x.0.iter()).map(|(s, x)| *s * c + *x).collect())
    }
    fn connected_components(sources: &Self, targets: &Self, n: SymInt) -> (Self, SymInt) {
        assert_eq!(sources.0.len(), targets.0.len());
        let n = n.conc() as usize;
        assert!(n > 0 || sources.0.is_empty());
        oob(&sources.0, n);
        oob(&targets.0, n);
        let conn = closure_of_pairs(n, &sources.0.iter().map(|s| s.0).collect::<Vec<_>>(), &targets.0.iter().map(|s| s.0).collect::<Vec<_>>());
        // roots = least element of each class; canonical numbering = rank of the class root,
        // i.e. first-occurrence order, which is what the Vec backend's `to_dense` produces.
        let is_root: Vec<T> = (0..n).map(|i| tm::and((0..i).map(|j| tm::not(conn[i][j])).collect())).collect();
        let mut rank: Vec<T> = vec![ci(0)];
        for i in 0..n {
            let r = tm::add(rank[i], tm::ite(is_root[i], ci(1), ci(0)));
            rank.push(r);
        }
        let k = rank[n];
        let cc: Vec<SymInt> = (0..n)
            .map(|i| {
                // class root of i = least j connected to i
                let mut r = rank[i];
                for j in (0..i).rev() {
                    r = tm::ite(tm::and2(conn[i][j], is_root[j]), rank[j], r);
                }
                SymInt(r)
            })
            .collect();
        if cfg().adv_cc {
            // adversarial: canonical numbering composed with a solver-chosen permutation of 0..k
            let kc = concretize(k) as usize;
            let p = fresh_perm("ccp", kc);
            let cc2: Vec<SymInt> = cc.iter().map(|c| select(&p, c)).collect();
            return (SymArray(cc2), SymInt::c(kc as u64));
        }
        (SymArray(cc), SymInt(k))
    }
    fn bincount(&self, size: SymInt) -> SymArray<SymInt> {
        let size = size.conc() as usize;
        oob(&self.0, size);
        SymArray((0..size).map(|j| SymInt(cnt(&self.0.iter().map(|x| tm::eq(x.0, ci(j))).collect::<Vec<_>>()))).collect())
    }
    fn sparse_bincount(&self) -> (SymArray<SymInt>, SymArray<SymInt>) {
        let n = self.0.len();
        let is_first: Vec<T> = (0..n).map(|i| tm::and((0..i).map(|j| tm::ne(self.0[i].0, self.0[j].0)).collect())).collect();
        let u = concretize(cnt(&is_first)) as usize;
        let keys: Vec<SymInt> = if cfg().adv_keys {
            // each occurring value exactly once, in any order
            let keys: Vec<SymInt> = (0..u).map(|_| SymInt::fresh("key", None)).collect();
            for a in 0..u {
                assume(tm::or(self.0.iter().map(|x| tm::eq(keys[a].0, x.0)).collect()));
                for b in 0..a {
                    assume(tm::ne(keys[a].0, keys[b].0));
                }
            }
            keys
        } else {
            // ascending order of distinct values (Vec backend sorts the keys)
            let rank: Vec<T> = (0..n)
                .map(|i| cnt(&(0..n).map(|j| tm::and2(is_first[j], tm::ult(self.0[j].0, self.0[i].0))).collect::<Vec<_>>()))
                .collect();
            (0..u)
                .map(|k| {
                    let mut r = self.0[n - 1].0;
                    for i in (0..n - 1).rev() {
                        r = tm::ite(tm::and2(is_first[i], tm::eq(rank[i], ci(k))), self.0[i].0, r);
                    }
                    SymInt(r)
                })
                .collect()
        };
        let counts = keys.iter().map(|k| SymInt(cnt(&self.0.iter().map(|x| tm::eq(x.0, k.0)).collect::<Vec<_>>()))).collect();
        (SymArray(keys), SymArray(counts))
    }
    fn zero(&self) -> SymArray<SymInt> {
        let n = self.0.len();
        let z: Vec<T> = self.0.iter().map(|x| tm::eq(x.0, ci(0))).collect();
        let total = concretize(cnt(&z)) as usize;
        let mut pre = vec![ci(0)];
        for i in 0..n {
            let nx = tm::add(pre[i], tm::ite(z[i], ci(1), ci(0)));
            pre.push(nx);
        }
        let mut out = vec![];
        for p in 0..total {
            let mut r = ci(n - 1);
            for i in (0..n - 1).rev() {
                r = tm::ite(tm::and2(z[i], tm::eq(pre[i], ci(p))), ci(i), r);
            }
            out.push(SymInt(r));
        }
        SymArray(out)
    }
    fn scatter_sub_assign(&mut self, ixs: &SymArray<SymInt>, rhs: &SymArray<SymInt>) {
        for i in 0..ixs.0.len() {
            oob(std::slice::from_ref(&ixs.0[i]), self.0.len());
            let cur = select(&self.0, &ixs.0[i]);
            let new = cur - rhs.0[i];
            store(&mut self.0, &ixs.0[i], &new);
        }
    }
}

/// reflexive-symmetric-transitive closure of the pairs (u_i, v_i) over 0..n as a Boolean term matrix (Warshall)
pub fn closure_of_pairs(n: usize, us: &[T], vs: &[T]) -> Vec<Vec<T>> {
    let mut conn: Vec<Vec<T>> = (0..n)
        .map(|i| {
            (0..n)
                .map(|j| {
                    if i == j {
                        tm::TRUE
                    } else {
                        tm::or(
                            us.iter()
                                .zip(vs.iter())
                                .map(|(u, v)| {
                                    tm::or2(
                                        tm::and2(tm::eq(*u, ci(i)), tm::eq(*v, ci(j))),
                                        tm::and2(tm::eq(*u, ci(j)), tm::eq(*v, ci(i))),
                                    )
                                })
                                .collect(),
                        )
                    }
                })
                .collect()
        })
        .collect();
    // symmetric by construction: compute upper triangle only
    for k in 0..n {
        let mut next = conn.clone();
        for i in 0..n {
            for j in (i + 1)..n {
                if i != k && j != k {
                    let v = tm::or2(conn[i][j], tm::and2(conn[i][k], conn[k][j]));
                    next[i][j] = v;
                    next[j][i] = v;
                }
            }
        }
        conn = next;
    }
    conn
}

// labels serialise as opaque tokens (the term handle), so that a JSON round trip of a diagram with
// symbolic labels is meaningful: the token that comes back is the same symbolic label
impl serde::Serialize for Lab {
    fn serialize<S: serde::Serializer>(&self, s: S) -> Result<S::Ok, S::Error> {
        s.serialize_u64(self.0 as u64)
    }
}
impl<'de> serde::Deserialize<'de> for Lab {
    fn deserialize<D: serde::Deserializer<'de>>(d: D) -> Result<Self, D::Error> {
        let v = <u64 as serde::Deserialize>::deserialize(d)?;
        Ok(Lab(v as T))
    }
}
