//! Hash-consed term DAG over fixed-width bit-vectors and Booleans, with
//! constant folding, interval tracking, a concrete evaluator (used to follow the
//! solver's model without re-querying) and an SMT-LIB2 emitter.
use std::cell::RefCell;
use std::collections::HashMap;

/// Term handle. Widths: 0 = Bool, otherwise bit-vector width (<= 64).
pub type T = u32;

#[derive(Clone, PartialEq, Eq, Hash, Debug)]
pub enum N {
    C(u64, u8),
    V(u32, u8),
    Add(T, T),
    Sub(T, T),
    Mul(T, T),
    UDiv(T, T),
    URem(T, T),
    BAnd(T, T),
    BOr(T, T),
    BXor(T, T),
    Ite(T, T, T),
    BC(bool),
    Not(T),
    And(Vec<T>),
    Or(Vec<T>),
    Eq(T, T),
    Ult(T, T),
    Ule(T, T),
    Iff(T, T),
    /// unsigned multiplication overflows at the operand width
    MulOvf(T, T),
}

pub const FALSE: T = 0;
pub const TRUE: T = 1;

pub struct Store {
    pub nodes: Vec<N>,
    pub w: Vec<u8>,
    pub iv: Vec<(u64, u64)>,
    map: HashMap<N, T>,
    defined: Vec<bool>,
    pub vars: Vec<(String, u8)>,
    ev: Vec<u64>,
    ev_stamp: Vec<u32>,
    stamp: u32,
}

#[inline]
pub fn mask(w: u8) -> u64 {
    if w >= 64 {
        !0
    } else {
        (1u64 << w) - 1
    }
}

impl Store {
    pub fn new() -> Self {
        let mut s = Store {
            nodes: vec![],
            w: vec![],
            iv: vec![],
            map: HashMap::new(),
            defined: vec![],
            vars: vec![],
            ev: vec![],
            ev_stamp: vec![],
            stamp: 1,
        };
        s.reset();
        s
    }
    pub fn reset(&mut self) {
        self.nodes.clear();
        self.w.clear();
        self.iv.clear();
        self.map.clear();
        self.defined.clear();
        self.vars.clear();
        self.ev.clear();
        self.ev_stamp.clear();
        self.stamp = 1;
        let f = self.raw(N::BC(false), 0, (0, 0));
        let t = self.raw(N::BC(true), 0, (1, 1));
        debug_assert!(f == FALSE && t == TRUE);
    }
    fn raw(&mut self, n: N, w: u8, iv: (u64, u64)) -> T {
        if let Some(&t) = self.map.get(&n) {
            return t;
        }
        let id = self.nodes.len() as T;
        self.nodes.push(n.clone());
        self.w.push(w);
        self.iv.push(iv);
        self.defined.push(false);
        self.ev.push(0);
        self.ev_stamp.push(0);
        self.map.insert(n, id);
        id
    }
    pub fn width(&self, t: T) -> u8 {
        self.w[t as usize]
    }
    pub fn as_const(&self, t: T) -> Option<u64> {
        match self.nodes[t as usize] {
            N::C(v, _) => Some(v),
            N::BC(b) => Some(b as u64),
            _ => None,
        }
    }
    pub fn c(&mut self, v: u64, w: u8) -> T {
        assert!(w > 0 && v <= mask(w), "constant {} exceeds width {}", v, w);
        self.raw(N::C(v, w), w, (v, v))
    }
    pub fn b(&mut self, v: bool) -> T {
        if v {
            TRUE
        } else {
            FALSE
        }
    }
    /// fresh variable with optional exclusive upper bound (recorded as interval; caller asserts it)
    pub fn var(&mut self, name: &str, w: u8, ub: Option<u64>) -> T {
        let id = self.vars.len() as u32;
        self.vars.push((format!("{}_{}", name, id), w));
        let hi = match ub {
            Some(0) => 0,
            Some(n) => (n - 1).min(mask(w)),
            None => mask(w),
        };
        self.raw(N::V(id, w), w, (0, hi))
    }
    pub fn bvar(&mut self, name: &str) -> T {
        let id = self.vars.len() as u32;
        self.vars.push((format!("{}_{}", name, id), 0));
        self.raw(N::V(id, 0), 0, (0, 1))
    }

    // ---------------------------------------------------------------- bit-vector ops
    pub fn add(&mut self, a: T, b: T) -> T {
        let w = self.w[a as usize];
        debug_assert_eq!(w, self.w[b as usize]);
        match (self.as_const(a), self.as_const(b)) {
            (Some(x), Some(y)) => return self.c(x.wrapping_add(y) & mask(w), w),
            (Some(0), _) => return b,
            (_, Some(0)) => return a,
            _ => {}
        }
        let (a, b) = if a <= b { (a, b) } else { (b, a) };
        let (ia, ib) = (self.iv[a as usize], self.iv[b as usize]);
        let iv = match (ia.0.checked_add(ib.0), ia.1.checked_add(ib.1)) {
            (Some(lo), Some(hi)) if hi <= mask(w) => (lo, hi),
            _ => (0, mask(w)),
        };
        self.raw(N::Add(a, b), w, iv)
    }
    pub fn sub(&mut self, a: T, b: T) -> T {
        let w = self.w[a as usize];
        debug_assert_eq!(w, self.w[b as usize]);
        match (self.as_const(a), self.as_const(b)) {
            (Some(x), Some(y)) => return self.c(x.wrapping_sub(y) & mask(w), w),
            (_, Some(0)) => return a,
            _ => {}
        }
        if a == b {
            return self.c(0, w);
        }
        let (ia, ib) = (self.iv[a as usize], self.iv[b as usize]);
        let iv = if ia.0 >= ib.1 { (ia.0 - ib.1, ia.1 - ib.0) } else { (0, mask(w)) };
        self.raw(N::Sub(a, b), w, iv)
    }
    pub fn mul(&mut self, a: T, b: T) -> T {
        let w = self.w[a as usize];
        debug_assert_eq!(w, self.w[b as usize]);
        match (self.as_const(a), self.as_const(b)) {
            (Some(x), Some(y)) => return self.c(x.wrapping_mul(y) & mask(w), w),
            (Some(0), _) | (_, Some(0)) => return self.c(0, w),
            (Some(1), _) => return b,
            (_, Some(1)) => return a,
            _ => {}
        }
        let (a, b) = if a <= b { (a, b) } else { (b, a) };
        let (ia, ib) = (self.iv[a as usize], self.iv[b as usize]);
        let iv = match (ia.0.checked_mul(ib.0), ia.1.checked_mul(ib.1)) {
            (Some(lo), Some(hi)) if hi <= mask(w) => (lo, hi),
            _ => (0, mask(w)),
        };
        self.raw(N::Mul(a, b), w, iv)
    }
    pub fn udiv(&mut self, a: T, b: T) -> T {
        let w = self.w[a as usize];
        if let (Some(x), Some(y)) = (self.as_const(a), self.as_const(b)) {
            return self.c(if y == 0 { mask(w) } else { x / y }, w);
        }
        let (ia, ib) = (self.iv[a as usize], self.iv[b as usize]);
        let iv = if ib.0 > 0 { (ia.0 / ib.1, ia.1 / ib.0) } else { (0, mask(w)) };
        self.raw(N::UDiv(a, b), w, iv)
    }
    pub fn urem(&mut self, a: T, b: T) -> T {
        let w = self.w[a as usize];
        if let (Some(x), Some(y)) = (self.as_const(a), self.as_const(b)) {
            return self.c(if y == 0 { x } else { x % y }, w);
        }
        let (ia, ib) = (self.iv[a as usize], self.iv[b as usize]);
        let iv = if ib.0 > 0 { (0, ia.1.min(ib.1 - 1)) } else { (0, mask(w)) };
        self.raw(N::URem(a, b), w, iv)
    }
    fn bitop(&mut self, k: u8, a: T, b: T) -> T {
        let w = self.w[a as usize];
        debug_assert_eq!(w, self.w[b as usize]);
        if let (Some(x), Some(y)) = (self.as_const(a), self.as_const(b)) {
            let v = match k {
                0 => x & y,
                1 => x | y,
                _ => x ^ y,
            };
            return self.c(v, w);
        }
        let (a, b) = if a <= b { (a, b) } else { (b, a) };
        let (ia, ib) = (self.iv[a as usize], self.iv[b as usize]);
        let hi_bits = |h: u64| if h == 0 { 0 } else { u64::MAX >> h.leading_zeros() };
        let iv = match k {
            0 => (0, ia.1.min(ib.1)),
            _ => (0, hi_bits(ia.1 | ib.1)),
        };
        let n = match k {
            0 => N::BAnd(a, b),
            1 => N::BOr(a, b),
            _ => N::BXor(a, b),
        };
        self.raw(n, w, iv)
    }
    pub fn band(&mut self, a: T, b: T) -> T {
        self.bitop(0, a, b)
    }
    pub fn bor(&mut self, a: T, b: T) -> T {
        self.bitop(1, a, b)
    }
    pub fn bxor(&mut self, a: T, b: T) -> T {
        self.bitop(2, a, b)
    }
    /// if-then-else on bit-vectors *or* Booleans
    pub fn ite(&mut self, c: T, a: T, b: T) -> T {
        if c == TRUE {
            return a;
        }
        if c == FALSE {
            return b;
        }
        if a == b {
            return a;
        }
        let w = self.w[a as usize];
        debug_assert_eq!(w, self.w[b as usize]);
        if w == 0 {
            // Boolean ite
            let nc = self.not(c);
            let x = self.and(vec![c, a]);
            let y = self.and(vec![nc, b]);
            return self.or(vec![x, y]);
        }
        // ite(c, a, ite(c, _, b')) = ite(c, a, b')
        if let N::Ite(c2, _, b2) = self.nodes[b as usize] {
            if c2 == c {
                return self.ite(c, a, b2);
            }
        }
        if let N::Ite(c2, a2, _) = self.nodes[a as usize] {
            if c2 == c {
                return self.ite(c, a2, b);
            }
        }
        let (ia, ib) = (self.iv[a as usize], self.iv[b as usize]);
        self.raw(N::Ite(c, a, b), w, (ia.0.min(ib.0), ia.1.max(ib.1)))
    }

    // ---------------------------------------------------------------- Boolean ops
    pub fn not(&mut self, a: T) -> T {
        if a == TRUE {
            return FALSE;
        }
        if a == FALSE {
            return TRUE;
        }
        if let N::Not(x) = self.nodes[a as usize] {
            return x;
        }
        self.raw(N::Not(a), 0, (0, 1))
    }
    pub fn and(&mut self, xs: Vec<T>) -> T {
        let mut out: Vec<T> = Vec::with_capacity(xs.len());
        for x in xs {
            if x == FALSE {
                return FALSE;
            }
            if x == TRUE {
                continue;
            }
            if let N::And(ys) = &self.nodes[x as usize] {
                out.extend(ys.iter().cloned());
            } else {
                out.push(x);
            }
        }
        out.sort_unstable();
        out.dedup();
        // x and not x
        for &x in &out {
            if let N::Not(y) = self.nodes[x as usize] {
                if out.binary_search(&y).is_ok() {
                    return FALSE;
                }
            }
        }
        match out.len() {
            0 => TRUE,
            1 => out[0],
            _ => self.raw(N::And(out), 0, (0, 1)),
        }
    }
    pub fn or(&mut self, xs: Vec<T>) -> T {
        let mut out: Vec<T> = Vec::with_capacity(xs.len());
        for x in xs {
            if x == TRUE {
                return TRUE;
            }
            if x == FALSE {
                continue;
            }
            if let N::Or(ys) = &self.nodes[x as usize] {
                out.extend(ys.iter().cloned());
            } else {
                out.push(x);
            }
        }
        out.sort_unstable();
        out.dedup();
        for &x in &out {
            if let N::Not(y) = self.nodes[x as usize] {
                if out.binary_search(&y).is_ok() {
                    return TRUE;
                }
            }
        }
        match out.len() {
            0 => FALSE,
            1 => out[0],
            _ => self.raw(N::Or(out), 0, (0, 1)),
        }
    }
    pub fn implies(&mut self, a: T, b: T) -> T {
        let na = self.not(a);
        self.or(vec![na, b])
    }
    pub fn iff(&mut self, a: T, b: T) -> T {
        if a == b {
            return TRUE;
        }
        if a == TRUE {
            return b;
        }
        if b == TRUE {
            return a;
        }
        if a == FALSE {
            return self.not(b);
        }
        if b == FALSE {
            return self.not(a);
        }
        let (a, b) = if a <= b { (a, b) } else { (b, a) };
        self.raw(N::Iff(a, b), 0, (0, 1))
    }
    pub fn eq(&mut self, a: T, b: T) -> T {
        if a == b {
            return TRUE;
        }
        let w = self.w[a as usize];
        debug_assert_eq!(w, self.w[b as usize], "eq on different sorts");
        if w == 0 {
            return self.iff(a, b);
        }
        let (ia, ib) = (self.iv[a as usize], self.iv[b as usize]);
        if ia.1 < ib.0 || ib.1 < ia.0 {
            return FALSE;
        }
        if ia.0 == ia.1 && ib.0 == ib.1 {
            return self.b(ia.0 == ib.0);
        }
        // eq(ite(c, x, y), k) with constant k: push inside when it folds
        let (a, b) = if a <= b { (a, b) } else { (b, a) };
        for (x, k) in [(a, b), (b, a)] {
            if self.as_const(k).is_some() {
                if let N::Ite(c, p, q) = self.nodes[x as usize] {
                    if self.as_const(p).is_some() || self.as_const(q).is_some() {
                        let ep = self.eq(p, k);
                        let eqq = self.eq(q, k);
                        return self.ite(c, ep, eqq);
                    }
                }
            }
        }
        self.raw(N::Eq(a, b), 0, (0, 1))
    }
    pub fn ult(&mut self, a: T, b: T) -> T {
        if a == b {
            return FALSE;
        }
        let (ia, ib) = (self.iv[a as usize], self.iv[b as usize]);
        if ia.1 < ib.0 {
            return TRUE;
        }
        if ia.0 >= ib.1 {
            return FALSE;
        }
        self.raw(N::Ult(a, b), 0, (0, 1))
    }
    pub fn ule(&mut self, a: T, b: T) -> T {
        if a == b {
            return TRUE;
        }
        let (ia, ib) = (self.iv[a as usize], self.iv[b as usize]);
        if ia.1 <= ib.0 {
            return TRUE;
        }
        if ia.0 > ib.1 {
            return FALSE;
        }
        self.raw(N::Ule(a, b), 0, (0, 1))
    }
    pub fn mul_ovf(&mut self, a: T, b: T) -> T {
        let w = self.w[a as usize];
        let (ia, ib) = (self.iv[a as usize], self.iv[b as usize]);
        match ia.1.checked_mul(ib.1) {
            Some(h) if h <= mask(w) => return FALSE,
            _ => {}
        }
        if let (Some(x), Some(y)) = (self.as_const(a), self.as_const(b)) {
            return self.b(x.checked_mul(y).map_or(true, |p| p > mask(w)));
        }
        self.raw(N::MulOvf(a, b), 0, (0, 1))
    }

    // ---------------------------------------------------------------- evaluation
    pub fn new_stamp(&mut self) {
        self.stamp = self.stamp.wrapping_add(1);
        if self.stamp == 0 {
            for s in self.ev_stamp.iter_mut() {
                *s = 0;
            }
            self.stamp = 1;
        }
    }
    /// evaluate under a model (values by variable id); memoised until `new_stamp`
    pub fn eval(&mut self, t: T, model: &[u64]) -> u64 {
        let mut stack: Vec<(T, bool)> = vec![(t, false)];
        while let Some((x, expanded)) = stack.pop() {
            let xi = x as usize;
            if self.ev_stamp[xi] == self.stamp {
                continue;
            }
            if !expanded {
                stack.push((x, true));
                match &self.nodes[xi] {
                    N::C(..) | N::V(..) | N::BC(_) => {}
                    N::Add(a, b) | N::Sub(a, b) | N::Mul(a, b) | N::UDiv(a, b) | N::URem(a, b)
                    | N::BAnd(a, b) | N::BOr(a, b) | N::BXor(a, b) | N::Eq(a, b) | N::Ult(a, b)
                    | N::Ule(a, b) | N::Iff(a, b) | N::MulOvf(a, b) => {
                        stack.push((*a, false));
                        stack.push((*b, false));
                    }
                    N::Ite(c, a, b) => {
                        stack.push((*c, false));
                        stack.push((*a, false));
                        stack.push((*b, false));
                    }
                    N::Not(a) => stack.push((*a, false)),
                    N::And(xs) | N::Or(xs) => {
                        for y in xs {
                            stack.push((*y, false));
                        }
                    }
                }
                continue;
            }
            let w = self.w[xi];
            let g = |s: &Store, y: T| s.ev[y as usize];
            let v = match &self.nodes[xi] {
                N::C(v, _) => *v,
                N::BC(b) => *b as u64,
                N::V(id, w) => {
                    let v = model.get(*id as usize).copied().unwrap_or(0);
                    if *w == 0 {
                        (v != 0) as u64
                    } else {
                        v & mask(*w)
                    }
                }
                N::Add(a, b) => g(self, *a).wrapping_add(g(self, *b)) & mask(w),
                N::Sub(a, b) => g(self, *a).wrapping_sub(g(self, *b)) & mask(w),
                N::Mul(a, b) => g(self, *a).wrapping_mul(g(self, *b)) & mask(w),
                N::UDiv(a, b) => {
                    let d = g(self, *b);
                    if d == 0 {
                        mask(w)
                    } else {
                        g(self, *a) / d
                    }
                }
                N::URem(a, b) => {
                    let d = g(self, *b);
                    if d == 0 {
                        g(self, *a)
                    } else {
                        g(self, *a) % d
                    }
                }
                N::BAnd(a, b) => g(self, *a) & g(self, *b),
                N::BOr(a, b) => g(self, *a) | g(self, *b),
                N::BXor(a, b) => g(self, *a) ^ g(self, *b),
                N::Ite(c, a, b) => {
                    if g(self, *c) != 0 {
                        g(self, *a)
                    } else {
                        g(self, *b)
                    }
                }
                N::Not(a) => (g(self, *a) == 0) as u64,
                N::And(xs) => xs.iter().all(|y| g(self, *y) != 0) as u64,
                N::Or(xs) => xs.iter().any(|y| g(self, *y) != 0) as u64,
                N::Eq(a, b) | N::Iff(a, b) => (g(self, *a) == g(self, *b)) as u64,
                N::Ult(a, b) => (g(self, *a) < g(self, *b)) as u64,
                N::Ule(a, b) => (g(self, *a) <= g(self, *b)) as u64,
                N::MulOvf(a, b) => {
                    let wa = self.w[*a as usize];
                    g(self, *a).checked_mul(g(self, *b)).map_or(true, |p| p > mask(wa)) as u64
                }
            };
            self.ev[xi] = v;
            self.ev_stamp[xi] = self.stamp;
        }
        self.ev[t as usize]
    }

    // ---------------------------------------------------------------- emission
    fn sort_str(w: u8) -> String {
        if w == 0 {
            "Bool".into()
        } else {
            format!("(_ BitVec {})", w)
        }
    }
    pub fn var_decl(&self, id: u32) -> String {
        let (n, w) = &self.vars[id as usize];
        format!("(declare-const {} {})", n, Self::sort_str(*w))
    }
    /// name by which a term is referred to in emitted text (leafs inline)
    pub fn name(&self, t: T) -> String {
        match &self.nodes[t as usize] {
            N::C(v, w) => format!("(_ bv{} {})", v, w),
            N::BC(b) => (if *b { "true" } else { "false" }).into(),
            N::V(id, _) => self.vars[*id as usize].0.clone(),
            _ => format!("t{}", t),
        }
    }
    fn body(&self, t: T) -> String {
        let n = |x: &T| self.name(*x);
        match &self.nodes[t as usize] {
            N::Add(a, b) => format!("(bvadd {} {})", n(a), n(b)),
            N::Sub(a, b) => format!("(bvsub {} {})", n(a), n(b)),
            N::Mul(a, b) => format!("(bvmul {} {})", n(a), n(b)),
            N::UDiv(a, b) => format!("(bvudiv {} {})", n(a), n(b)),
            N::URem(a, b) => format!("(bvurem {} {})", n(a), n(b)),
            N::BAnd(a, b) => format!("(bvand {} {})", n(a), n(b)),
            N::BOr(a, b) => format!("(bvor {} {})", n(a), n(b)),
            N::BXor(a, b) => format!("(bvxor {} {})", n(a), n(b)),
            N::Ite(c, a, b) => format!("(ite {} {} {})", n(c), n(a), n(b)),
            N::Not(a) => format!("(not {})", n(a)),
            N::And(xs) => format!("(and {})", xs.iter().map(n).collect::<Vec<_>>().join(" ")),
            N::Or(xs) => format!("(or {})", xs.iter().map(n).collect::<Vec<_>>().join(" ")),
            N::Eq(a, b) | N::Iff(a, b) => format!("(= {} {})", n(a), n(b)),
            N::Ult(a, b) => format!("(bvult {} {})", n(a), n(b)),
            N::Ule(a, b) => format!("(bvule {} {})", n(a), n(b)),
            N::MulOvf(a, b) => {
                let w = self.w[*a as usize] as usize;
                format!(
                    "(not (= ((_ extract {} {}) (bvmul ((_ zero_extend {w}) {}) ((_ zero_extend {w}) {}))) (_ bv0 {w})))",
                    2 * w - 1,
                    w,
                    n(a),
                    n(b),
                    w = w
                )
            }
            N::C(..) | N::V(..) | N::BC(_) => self.name(t),
        }
    }
    /// emit `define-fun` lines for every not-yet-defined inner node reachable from `t`
    pub fn emit_defs(&mut self, t: T, out: &mut String) {
        let mut stack: Vec<(T, bool)> = vec![(t, false)];
        while let Some((x, expanded)) = stack.pop() {
            let xi = x as usize;
            if self.defined[xi] {
                continue;
            }
            match &self.nodes[xi] {
                N::C(..) | N::V(..) | N::BC(_) => {
                    self.defined[xi] = true;
                    continue;
                }
                _ => {}
            }
            if !expanded {
                stack.push((x, true));
                match &self.nodes[xi] {
                    N::Add(a, b) | N::Sub(a, b) | N::Mul(a, b) | N::UDiv(a, b) | N::URem(a, b)
                    | N::BAnd(a, b) | N::BOr(a, b) | N::BXor(a, b) | N::Eq(a, b) | N::Ult(a, b)
                    | N::Ule(a, b) | N::Iff(a, b) | N::MulOvf(a, b) => {
                        stack.push((*a, false));
                        stack.push((*b, false));
                    }
                    N::Ite(c, a, b) => {
                        stack.push((*c, false));
                        stack.push((*a, false));
                        stack.push((*b, false));
                    }
                    N::Not(a) => stack.push((*a, false)),
                    N::And(xs) | N::Or(xs) => {
                        for y in xs {
                            stack.push((*y, false));
                        }
                    }
                    _ => {}
                }
                continue;
            }
            out.push_str(&format!(
                "(define-fun t{} () {} {})\n",
                x,
                Self::sort_str(self.w[xi]),
                self.body(x)
            ));
            self.defined[xi] = true;
        }
    }
    /// self-contained SMT-LIB text of a formula (all definitions inlined as define-funs), for cross-solver checks
    pub fn standalone(&self, asserts: &[T]) -> String {
        let mut s = String::from("(set-logic QF_BV)\n");
        for i in 0..self.vars.len() {
            s.push_str(&self.var_decl(i as u32));
            s.push('\n');
        }
        let mut seen = vec![false; self.nodes.len()];
        let mut order: Vec<T> = vec![];
        for &a in asserts {
            let mut stack = vec![(a, false)];
            while let Some((x, ex)) = stack.pop() {
                if seen[x as usize] {
                    continue;
                }
                if ex {
                    seen[x as usize] = true;
                    order.push(x);
                    continue;
                }
                stack.push((x, true));
                match &self.nodes[x as usize] {
                    N::Add(a, b) | N::Sub(a, b) | N::Mul(a, b) | N::UDiv(a, b) | N::URem(a, b)
                    | N::BAnd(a, b) | N::BOr(a, b) | N::BXor(a, b) | N::Eq(a, b) | N::Ult(a, b)
                    | N::Ule(a, b) | N::Iff(a, b) | N::MulOvf(a, b) => {
                        stack.push((*a, false));
                        stack.push((*b, false));
                    }
                    N::Ite(c, a, b) => {
                        stack.push((*c, false));
                        stack.push((*a, false));
                        stack.push((*b, false));
                    }
                    N::Not(a) => stack.push((*a, false)),
                    N::And(xs) | N::Or(xs) => {
                        for y in xs {
                            stack.push((*y, false));
                        }
                    }
                    _ => {}
                }
            }
        }
        for x in order {
            match &self.nodes[x as usize] {
                N::C(..) | N::V(..) | N::BC(_) => {}
                _ => s.push_str(&format!(
                    "(define-fun t{} () {} {})\n",
                    x,
                    Self::sort_str(self.w[x as usize]),
                    self.body(x)
                )),
            }
        }
        for &a in asserts {
            s.push_str(&format!("(assert {})\n", self.name(a)));
        }
        s.push_str("(check-sat)\n");
        s
    }
}

thread_local! {
    pub static STORE: RefCell<Store> = RefCell::new(Store::new());
}

pub fn st<R>(f: impl FnOnce(&mut Store) -> R) -> R {
    STORE.with(|s| f(&mut s.borrow_mut()))
}

// ------------------------------------------------------------------ free-function API
pub fn c(v: u64, w: u8) -> T {
    st(|s| s.c(v, w))
}
pub fn bconst(v: bool) -> T {
    if v {
        TRUE
    } else {
        FALSE
    }
}
pub fn add(a: T, b: T) -> T {
    st(|s| s.add(a, b))
}
pub fn sub(a: T, b: T) -> T {
    st(|s| s.sub(a, b))
}
pub fn mul(a: T, b: T) -> T {
    st(|s| s.mul(a, b))
}
pub fn udiv(a: T, b: T) -> T {
    st(|s| s.udiv(a, b))
}
pub fn urem(a: T, b: T) -> T {
    st(|s| s.urem(a, b))
}
pub fn band(a: T, b: T) -> T {
    st(|s| s.band(a, b))
}
pub fn bor(a: T, b: T) -> T {
    st(|s| s.bor(a, b))
}
pub fn bxor(a: T, b: T) -> T {
    st(|s| s.bxor(a, b))
}
pub fn ite(cn: T, a: T, b: T) -> T {
    st(|s| s.ite(cn, a, b))
}
pub fn not(a: T) -> T {
    st(|s| s.not(a))
}
pub fn and(xs: Vec<T>) -> T {
    st(|s| s.and(xs))
}
pub fn or(xs: Vec<T>) -> T {
    st(|s| s.or(xs))
}
pub fn and2(a: T, b: T) -> T {
    st(|s| s.and(vec![a, b]))
}
pub fn or2(a: T, b: T) -> T {
    st(|s| s.or(vec![a, b]))
}
pub fn implies(a: T, b: T) -> T {
    st(|s| s.implies(a, b))
}
pub fn iff(a: T, b: T) -> T {
    st(|s| s.iff(a, b))
}
pub fn eq(a: T, b: T) -> T {
    st(|s| s.eq(a, b))
}
pub fn ne(a: T, b: T) -> T {
    st(|s| {
        let e = s.eq(a, b);
        s.not(e)
    })
}
pub fn ult(a: T, b: T) -> T {
    st(|s| s.ult(a, b))
}
pub fn ule(a: T, b: T) -> T {
    st(|s| s.ule(a, b))
}
pub fn ugt(a: T, b: T) -> T {
    ult(b, a)
}
pub fn uge(a: T, b: T) -> T {
    ule(b, a)
}
pub fn width(a: T) -> u8 {
    st(|s| s.width(a))
}
pub fn as_const(a: T) -> Option<u64> {
    st(|s| s.as_const(a))
}
pub fn interval(a: T) -> (u64, u64) {
    st(|s| s.iv[a as usize])
}
/// number of `xs` that are true, as a bit-vector of width `w`
pub fn count(xs: &[T], w: u8) -> T {
    let mut acc = c(0, w);
    let one = c(1, w);
    let zero = c(0, w);
    for &x in xs {
        let d = ite(x, one, zero);
        acc = add(acc, d);
    }
    acc
}
/// `xs[i]` for a symbolic index (ite chain); caller guarantees `i < len` on the path
pub fn select(xs: &[T], i: T) -> T {
    if let Some(v) = as_const(i) {
        // total: an out-of-range constant index (only under a violated guard) reads the last element
        return xs[(v as usize).min(xs.len() - 1)];
    }
    let w = width(i);
    let (lo, hi) = interval(i);
    let lo = lo as usize;
    let hi = (hi as usize).min(xs.len() - 1);
    let mut r = xs[hi];
    for j in (lo..hi).rev() {
        r = ite(eq(i, c(j as u64, w)), xs[j], r);
    }
    r
}
