//! `symk <ID> --tier quick|thorough [--seed N] [--out evidence.json] [--replay file] [--jobs-filter substr]`
use std::time::{Duration, Instant};
use symk::checks::{registry, Tier};
use symk::json::J;
use symk::runner::*;

fn arg(args: &[String], key: &str) -> Option<String> {
    args.iter().position(|a| a == key).and_then(|i| args.get(i + 1).cloned())
}

fn parse_model(text: &str) -> Option<Vec<u64>> {
    let i = text.find("\"model\":[")? + 9;
    let j = text[i..].find(']')? + i;
    Some(text[i..j].split(',').filter(|s| !s.trim().is_empty()).map(|s| s.trim().parse().unwrap()).collect())
}
fn parse_choices(text: &str) -> Option<Vec<usize>> {
    let i = text.find("\"choices\":[")? + 11;
    let j = text[i..].find(']')? + i;
    Some(text[i..j].split(',').filter(|s| !s.trim().is_empty()).map(|s| s.trim().parse().unwrap()).collect())
}
fn parse_str(text: &str, key: &str) -> Option<String> {
    let pat = format!("\"{}\":\"", key);
    let i = text.find(&pat)? + pat.len();
    let j = text[i..].find('"')? + i;
    Some(text[i..j].to_string())
}

fn main() {
    let args: Vec<String> = std::env::args().collect();
    if args.len() < 2 {
        eprintln!("usage: symk <ID> --tier quick|thorough [--seed N] [--out FILE] [--replay FILE]");
        std::process::exit(2);
    }
    symk::explore::install_quiet_panic_hook();
    if args[1] == "--list" {
        for d in registry() {
            println!("{}", d.id);
        }
        return;
    }
    let id = args[1].clone();
    let tier = match arg(&args, "--tier").or_else(|| std::env::var("VERIF_TIER").ok()).as_deref() {
        Some("thorough") => Tier::Thorough,
        _ => Tier::Quick,
    };
    let seed: u64 = arg(&args, "--seed").or_else(|| std::env::var("VERIF_SEED").ok()).and_then(|s| s.parse().ok()).unwrap_or(0);
    let threads: usize = arg(&args, "--threads").and_then(|s| s.parse().ok()).unwrap_or(16);
    let reg = registry();
    let def = match reg.iter().find(|d| d.id == id) {
        Some(d) => d,
        None => {
            eprintln!("no Engine-S check registered for {}", id);
            std::process::exit(2);
        }
    };
    let t0 = Instant::now();
    let mut jobs = (def.jobs)(tier, seed);
    // quick tier: after the quick box, a seeded sample of the thorough box fills what is left of the budget
    // (non-mandatory, quick per-job and per-query limits), so that changes which only manifest on larger
    // structures have a chance to be seen on every run
    let mut extras = 0usize;
    if tier == Tier::Quick && arg(&args, "--replay").is_none() && std::env::var("SYMK_NO_EXTRAS").is_err() {
        let have: std::collections::HashSet<String> = jobs.iter().map(|j| j.name.clone()).collect();
        let mut more: Vec<Job> = (def.jobs)(Tier::Thorough, seed).into_iter().filter(|j| !have.contains(&j.name)).collect();
        symk::checks::Rng::new(seed ^ 0x5eed).shuffle(&mut more);
        more.truncate(20_000);
        for j in more.iter_mut() {
            j.mandatory = false;
            j.budget = Duration::from_secs(30);
            j.cfg.query_timeout_ms = 20_000;
            j.name = format!("[thorough-box sample] {}", j.name);
        }
        extras = more.len();
        jobs.extend(more);
    }
    // a binary can only replay natively in the arithmetic profile it was compiled with:
    // `release` cargo profile here = dev semantics (overflow checks on), `relnative` = wrapping.
    let native_dev = cfg!(debug_assertions);
    jobs.retain(|j| (j.cfg.profile == symk::explore::Profile::Dev) == native_dev);
    if let Some(f) = arg(&args, "--jobs-filter") {
        jobs.retain(|j| j.name.contains(&f));
    }
    if let Some(n) = arg(&args, "--max-jobs").and_then(|s| s.parse::<usize>().ok()) {
        jobs.truncate(n);
    }
    if arg(&args, "--list-jobs").is_some() {
        for j in &jobs {
            println!("{}\t{}", if j.mandatory { "M" } else { "-" }, j.name);
        }
        return;
    }
    // ---- replay mode: one recorded counterexample, pinned
    if let Some(path) = arg(&args, "--replay") {
        let text = std::fs::read_to_string(&path).expect("replay file");
        let model = parse_model(&text).expect("model in replay file");
        let jname = parse_str(&text, "job").expect("job in replay file");
        let choices = parse_choices(&text).unwrap_or_default();
        // a split job is named "<base> ids[..]": replay the base generator with all choices pinned
        let base = jname.split(" ids[").next().unwrap().to_string();
        jobs.retain(|j| j.name == jname || j.name.split(" ids[").next().unwrap() == base);
        jobs.truncate(1);
        if jobs.is_empty() {
            eprintln!("replay: job {:?} not found in tier", jname);
            std::process::exit(2);
        }
        for j in jobs.iter_mut() {
            j.cfg.pin = Some(std::sync::Arc::new(model.clone()));
            j.cfg.pin_choices = Some(std::sync::Arc::new(choices.clone()));
            j.mandatory = true;
        }
        let res = run_jobs(jobs, 1, None);
        let sum = summarise(&res, def.functions, "replay", "pinned model");
        if let Some((job, Verdict::Violation { what, inputs, native, .. }, _)) = sum.violations.first() {
            println!("REPLAY reproduced: {} :: {}\n inputs={}\n native={}", job, what, inputs, native);
            println!("VIOLATION property={} replay={}", id, path);
            std::process::exit(1);
        }
        println!("REPLAY did not reproduce a violation (paths={}, mismatches={}, engine_errors={:?})", sum.paths, sum.mismatches.len(), sum.engine_errors);
        std::process::exit(0);
    }
    let budget = Duration::from_secs(match tier {
        Tier::Quick => arg(&args, "--budget").and_then(|s| s.parse().ok()).unwrap_or(def.budget_s.0),
        Tier::Thorough => arg(&args, "--budget").and_then(|s| s.parse().ok()).unwrap_or(def.budget_s.1),
    });
    if std::env::var("SYMK_SCRIPTS").is_ok() {
        // (scripts for the cross-solver check are requested per path by the driver)
    }
    let share: f64 = arg(&args, "--budget-share").and_then(|s| s.parse().ok()).unwrap_or(1.0);
    let budget = budget.mul_f64(share);
    let xn: isize = std::env::var("SYMK_XCHECK").ok().and_then(|s| s.parse().ok()).unwrap_or(16);
    symk::runner::XCHECK_WANTED.store(xn, std::sync::atomic::Ordering::SeqCst);
    let res = run_jobs(jobs, threads, Some(t0 + budget));
    // ---- cross-solver check: re-decide a sample of final obligations with cvc5 and the older z3
    let mut xc = (0u64, 0u64, 0u64, Vec::<String>::new()); // checked, agreed, inconclusive, disagreements
    for r in res.iter() {
        for p in r.reports.iter() {
            if let Some(script) = &p.script {
                if xc.0 >= xn as u64 {
                    break;
                }
                let expect_unsat = matches!(p.verdict, Verdict::Holds);
                let expect_sat = matches!(p.verdict, Verdict::Violation { .. });
                if !expect_unsat && !expect_sat {
                    continue;
                }
                for solver in ["cvc5", "/usr/bin/z3"] {
                    xc.0 += 1;
                    match symk::solver::decide_standalone(solver, script, 20) {
                        symk::solver::Sat::Unknown => xc.2 += 1,
                        symk::solver::Sat::Unsat if expect_unsat => xc.1 += 1,
                        symk::solver::Sat::Sat if expect_sat => xc.1 += 1,
                        other => xc.3.push(format!("{} on an obligation of job {}: {:?}, engine said {}", solver, r.name, other, if expect_unsat { "unsat" } else { "sat" })),
                    }
                }
            }
        }
    }
    let bounds = match tier {
        Tier::Quick => def.bounds_quick,
        Tier::Thorough => def.bounds_thorough,
    };
    let sum = summarise(&res, def.functions, bounds, "index/label width 16 (dev profile: every +,-,* carries a no-overflow obligation, see DESIGN 3.1), values 64 bit; vec-faithful resolution of the array contract's open choices");
    let wall = t0.elapsed().as_secs_f64();
    // ---- replay files
    let mut vio_json = vec![];
    let _ = std::fs::create_dir_all("replays");
    for (k, (job, v, choices)) in sum.violations.iter().enumerate().take(8) {
        if let Verdict::Violation { what, model, inputs, native } = v {
            let path = format!("replays/{}{}-{}-{}.json", id, if cfg!(debug_assertions) { "" } else { "rel" }, seed, k);
            let body = J::obj(vec![
                ("property", J::s(&id)),
                ("engine", J::s("S")),
                ("native_profile", J::s(if cfg!(debug_assertions) { "dev" } else { "release (wrapping)" })),
                ("tier", J::s(if tier == Tier::Quick { "quick" } else { "thorough" })),
                ("job", J::s(job)),
                ("what", J::s(what)),
                ("model", J::A(model.iter().map(|x| J::Raw(x.to_string())).collect())),
                ("choices", J::A(choices.iter().map(|x| J::I(*x as i64)).collect())),
                ("inputs", J::Raw(inputs.clone())),
                ("native_outcome", J::Raw(native.clone())),
            ]);
            let _ = std::fs::write(&path, body.render().replace("\"model\":[", "\"model\":["));
            vio_json.push(J::obj(vec![("job", J::s(job)), ("what", J::s(what)), ("inputs", J::Raw(inputs.clone())), ("native_outcome", J::Raw(native.clone())), ("replay", J::s(&path))]));
        }
    }
    let mut mm_json = vec![];
    for (job, v) in sum.mismatches.iter().take(5) {
        if let Verdict::Mismatch { what, inputs, native, symbolic, .. } = v {
            mm_json.push(J::obj(vec![("job", J::s(job)), ("what", J::s(what)), ("inputs", J::Raw(inputs.clone())), ("native", J::Raw(native.clone())), ("symbolic", J::Raw(symbolic.clone()))]));
        }
    }
    let out = J::obj(vec![
        ("property_id", J::s(&id)),
        ("engine", J::s("S")),
        ("native_profile", J::s(if cfg!(debug_assertions) { "dev (overflow checks, debug assertions)" } else { "release (wrapping arithmetic)" })),
        ("tier", J::s(if tier == Tier::Quick { "quick" } else { "thorough" })),
        ("seed", J::I(seed as i64)),
        ("coverage", {
            let mut c = sum.json.clone();
            if let J::O(kv) = &mut c {
                kv.push(("cross_solver_check".to_string(), J::obj(vec![("obligations_redecided", J::I(xc.0 as i64)), ("agree", J::I(xc.1 as i64)), ("inconclusive_timeout", J::I(xc.2 as i64)), ("solvers", J::s("cvc5 1.0, z3 4.8.12"))])));
            }
            c
        }),
        ("wall_s", J::F(wall)),
        ("thorough_box_sample_jobs_offered", J::I(extras as i64)),
        ("violations", J::A(vio_json)),
        ("mismatches", J::A(mm_json)),
        ("engine_errors", J::A(sum.engine_errors.iter().chain(xc.3.iter()).map(|e| J::s(e)).collect())),
        ("unknowns", J::I(sum.unknowns as i64)),
    ]);
    let out_path = arg(&args, "--out").unwrap_or_else(|| format!(".build/symk-{}.json", id));
    if let Some(dir) = std::path::Path::new(&out_path).parent() {
        let _ = std::fs::create_dir_all(dir);
    }
    std::fs::write(&out_path, out.render()).expect("write result");
    eprintln!(
        "[symk {}] jobs={} paths={} violations={} mismatches={} engine_errors={} unknown={} wall={:.1}s",
        id,
        res.len(),
        sum.paths,
        sum.violations.len(),
        sum.mismatches.len(),
        sum.engine_errors.len(),
        sum.unknowns,
        wall
    );
    if !sum.engine_errors.is_empty() || !sum.mismatches.is_empty() || !xc.3.is_empty() {
        for e in xc.3.iter().take(3) {
            eprintln!("  cross-solver disagreement: {}", e);
        }
        for e in sum.engine_errors.iter().take(5) {
            eprintln!("  engine error: {}", e);
        }
        std::process::exit(2);
    }
    if !sum.violations.is_empty() {
        std::process::exit(1);
    }
    std::process::exit(0);
}
