//! Conversions between plain (term-leaf) data and the two array backends:
//! `SymKind` (terms stay terms) and the real `VecKind` (terms must be constants).
use crate::explore::*;
use crate::kind::*;
use crate::term::{self as tm, T};
use open_hypergraphs::array::vec::{VecArray, VecKind};
use open_hypergraphs::array::*;

/// native label type
#[derive(Clone, Copy, Debug, PartialEq, Eq, Hash, serde::Serialize, serde::Deserialize)]
pub struct NLab(pub u64);
/// native evaluation value: wrapping ring Z/2^vw
#[derive(Clone, Copy, Debug, PartialEq, Eq, Default)]
pub struct NVal(pub u64);
fn vmask() -> u64 {
    tm::mask(vw())
}
impl core::ops::Add for NVal {
    type Output = NVal;
    fn add(self, o: NVal) -> NVal {
        NVal(self.0.wrapping_add(o.0) & vmask())
    }
}
impl core::ops::Sub for NVal {
    type Output = NVal;
    fn sub(self, o: NVal) -> NVal {
        NVal(self.0.wrapping_sub(o.0) & vmask())
    }
}
impl core::ops::Mul for NVal {
    type Output = NVal;
    fn mul(self, o: NVal) -> NVal {
        NVal(self.0.wrapping_mul(o.0) & vmask())
    }
}
impl core::ops::Neg for NVal {
    type Output = NVal;
    fn neg(self) -> NVal {
        NVal(0u64.wrapping_sub(self.0) & vmask())
    }
}
impl core::ops::BitAnd for NVal {
    type Output = NVal;
    fn bitand(self, o: NVal) -> NVal {
        NVal(self.0 & o.0)
    }
}
impl core::ops::BitXor for NVal {
    type Output = NVal;
    fn bitxor(self, o: NVal) -> NVal {
        NVal(self.0 ^ o.0)
    }
}

fn k(t: T) -> u64 {
    tm::as_const(t).expect("ENGINE-ERROR: native run needs constant inputs")
}
/// constant of index width; values a native run produced that do not fit the index width are
/// kept at 64 bits (they can only arise from wrapped arithmetic and never equal a symbolic value)
fn ki(v: usize) -> T {
    let v = v as u64;
    if v <= tm::mask(iw()) {
        tm::c(v, iw())
    } else {
        tm::c(v, 64)
    }
}

pub trait Conv: ArrayKind {
    type L: Clone + PartialEq + core::fmt::Debug;
    type V: Clone + Default + core::fmt::Debug;
    fn mk_i(t: T) -> Self::I;
    fn rd_i(i: &Self::I) -> T;
    fn mk_ix(ts: &[T]) -> Self::Index;
    fn rd_ix(a: &Self::Index) -> Vec<T>;
    fn mk_ls(ts: &[T]) -> Self::Type<Self::L>;
    fn rd_ls(a: &Self::Type<Self::L>) -> Vec<T>;
    fn mk_l(t: T) -> Self::L;
    fn rd_l(l: &Self::L) -> T;
    fn mk_vs(ts: &[T]) -> Self::Type<Self::V>;
    fn rd_vs(a: &Self::Type<Self::V>) -> Vec<T>;
    fn mk_v(t: T) -> Self::V;
    fn rd_v(l: &Self::V) -> T;
    /// concrete value of a label (forks at the symbolic backend)
    fn conc_l(l: &Self::L) -> u64;
    fn usize_of(i: &Self::I) -> usize;
}

impl Conv for SymKind {
    type L = Lab;
    type V = Val;
    fn mk_i(t: T) -> SymInt {
        SymInt(t)
    }
    fn rd_i(i: &SymInt) -> T {
        i.0
    }
    fn mk_ix(ts: &[T]) -> SymArray<SymInt> {
        SymArray(ts.iter().map(|t| SymInt(*t)).collect())
    }
    fn rd_ix(a: &SymArray<SymInt>) -> Vec<T> {
        a.0.iter().map(|x| x.0).collect()
    }
    fn mk_ls(ts: &[T]) -> SymArray<Lab> {
        SymArray(ts.iter().map(|t| Lab(*t)).collect())
    }
    fn rd_ls(a: &SymArray<Lab>) -> Vec<T> {
        a.0.iter().map(|x| x.0).collect()
    }
    fn mk_l(t: T) -> Lab {
        Lab(t)
    }
    fn rd_l(l: &Lab) -> T {
        l.0
    }
    fn mk_vs(ts: &[T]) -> SymArray<Val> {
        SymArray(ts.iter().map(|t| Val(*t)).collect())
    }
    fn rd_vs(a: &SymArray<Val>) -> Vec<T> {
        a.0.iter().map(|x| x.0).collect()
    }
    fn mk_v(t: T) -> Val {
        Val(t)
    }
    fn rd_v(l: &Val) -> T {
        l.0
    }
    fn conc_l(l: &Lab) -> u64 {
        l.conc()
    }
    fn usize_of(i: &SymInt) -> usize {
        i.conc() as usize
    }
}

impl Conv for VecKind {
    type L = NLab;
    type V = NVal;
    fn mk_i(t: T) -> usize {
        k(t) as usize
    }
    fn rd_i(i: &usize) -> T {
        ki(*i)
    }
    fn mk_ix(ts: &[T]) -> VecArray<usize> {
        VecArray(ts.iter().map(|t| k(*t) as usize).collect())
    }
    fn rd_ix(a: &VecArray<usize>) -> Vec<T> {
        a.0.iter().map(|x| ki(*x)).collect()
    }
    fn mk_ls(ts: &[T]) -> VecArray<NLab> {
        VecArray(ts.iter().map(|t| NLab(k(*t))).collect())
    }
    fn rd_ls(a: &VecArray<NLab>) -> Vec<T> {
        a.0.iter().map(|x| tm::c(x.0, lw())).collect()
    }
    fn mk_l(t: T) -> NLab {
        NLab(k(t))
    }
    fn rd_l(l: &NLab) -> T {
        tm::c(l.0, lw())
    }
    fn mk_vs(ts: &[T]) -> VecArray<NVal> {
        VecArray(ts.iter().map(|t| NVal(k(*t))).collect())
    }
    fn rd_vs(a: &VecArray<NVal>) -> Vec<T> {
        a.0.iter().map(|x| tm::c(x.0, vw())).collect()
    }
    fn mk_v(t: T) -> NVal {
        NVal(k(t))
    }
    fn rd_v(l: &NVal) -> T {
        tm::c(l.0, vw())
    }
    fn conc_l(l: &NLab) -> u64 {
        l.0
    }
    fn usize_of(i: &usize) -> usize {
        *i
    }
}

// ------------------------------------------------------------------ test signature for the Var interface (C19)
/// edge labels of the test signature (object labels are arbitrary)
pub const L_VAR: u64 = 200;
pub const L_ADD: u64 = 201;
pub const L_MUL: u64 = 202;
pub const L_NEG: u64 = 203;
pub const L_XOR: u64 = 204;
pub const L_AND: u64 = 205;
pub const L_SUB: u64 = 206;
pub const L_NOT: u64 = 207;
pub const L_OP3: u64 = 208;
pub const L_OR: u64 = 209;
pub const L_SHL: u64 = 220;
pub const L_SHR: u64 = 221;
pub const L_DIV: u64 = 222;
use open_hypergraphs::lax::var::*;
impl HasVar for Lab {
    fn var() -> Self {
        Lab::c(L_VAR)
    }
}
impl HasVar for NLab {
    fn var() -> Self {
        NLab(L_VAR)
    }
}
macro_rules! sig_binop {
    ($tr:ident, $f:ident, $k:expr) => {
        impl $tr<Lab, Lab> for Lab {
            fn $f(l: Lab, _r: Lab) -> (Lab, Lab) {
                (l, Lab::c($k))
            }
        }
        impl $tr<NLab, NLab> for NLab {
            fn $f(l: NLab, _r: NLab) -> (NLab, NLab) {
                (l, NLab($k))
            }
        }
    };
}
macro_rules! sig_unop {
    ($tr:ident, $f:ident, $k:expr) => {
        impl $tr<Lab, Lab> for Lab {
            fn $f(l: Lab) -> (Lab, Lab) {
                (l, Lab::c($k))
            }
        }
        impl $tr<NLab, NLab> for NLab {
            fn $f(l: NLab) -> (NLab, NLab) {
                (l, NLab($k))
            }
        }
    };
}
sig_binop!(HasAdd, add, L_ADD);
sig_binop!(HasMul, mul, L_MUL);
sig_binop!(HasSub, sub, L_SUB);
sig_binop!(HasBitXor, bitxor, L_XOR);
sig_binop!(HasBitAnd, bitand, L_AND);
sig_binop!(HasBitOr, bitor, L_OR);
sig_binop!(HasShl, shl, L_SHL);
sig_binop!(HasShr, shr, L_SHR);
sig_binop!(HasDiv, div, L_DIV);
sig_unop!(HasNeg, neg, L_NEG);
sig_unop!(HasNot, not, L_NOT);

// ------------------------------------------------------------------ polynomial-circuit signature (C14 derivative clause)
pub const P_ADD: u64 = 210;
pub const P_MUL: u64 = 211;
pub const P_NEG: u64 = 212;
pub const P_COPY: u64 = 213;
pub const P_DISCARD: u64 = 214;
pub const P_CONST: u64 = 215; // the constant 5
pub const P_ZERO: u64 = 216; // the constant 0 (reverse of discard)
/// (sources, targets) of a polynomial-circuit operation
pub fn poly_arity(k: u64) -> (usize, usize) {
    match k {
        P_ADD | P_MUL => (2, 1),
        P_NEG => (1, 1),
        P_COPY => (1, 2),
        P_DISCARD => (1, 0),
        P_CONST | P_ZERO => (0, 1),
        _ => panic!("ENGINE-ERROR: unknown polynomial operation {}", k),
    }
}
