//! Backend-free "plain" data: raw array-level descriptions of library values (leaves are terms),
//! the plain model of open hypergraphs used by the oracles, symbolic input generators and the
//! isomorphism formula.
use crate::explore::*;
use crate::term::{self as tm, T};

// ------------------------------------------------------------------ raw (array-level) forms
#[derive(Clone, Debug, PartialEq)]
pub struct RawFF {
    pub table: Vec<T>,
    pub target: T,
}
#[derive(Clone, Debug, PartialEq)]
pub struct RawIC {
    /// segment sizes (sources.table) and the codomain of the size map (sources.target)
    pub sizes: Vec<T>,
    pub sizes_target: T,
    pub vals: Vec<T>,
    /// `values.target` for finite-function values; for label values this is unused (0)
    pub vals_target: T,
}
#[derive(Clone, Debug, PartialEq)]
pub struct RawH {
    pub s: RawIC,
    pub t: RawIC,
    pub w: Vec<T>,
    pub x: Vec<T>,
}
#[derive(Clone, Debug, PartialEq)]
pub struct RawOH {
    pub s: RawFF,
    pub t: RawFF,
    pub h: RawH,
}

/// Plain value tree: the observable outcome of a run, in a backend-independent shape.
#[derive(Clone, Debug, PartialEq)]
pub enum PV {
    T(T),
    List(Vec<PV>),
    None,
    Some(Box<PV>),
    Tag(String, Vec<PV>),
    FF(RawFF),
    IC(RawIC),
    H(RawH),
    OH(RawOH),
    Lax(RawLax),
    Panic(String),
}

/// A `lax::OpenHypergraph`: node identifiers are constant index terms (they are concrete `usize` in the
/// library), labels are terms.
#[derive(Clone, Debug, PartialEq)]
pub struct RawLax {
    pub nodes: Vec<T>,
    pub edges: Vec<T>,
    pub adj: Vec<(Vec<T>, Vec<T>)>,
    pub quot: Vec<(T, T)>,
    pub s: Vec<T>,
    pub t: Vec<T>,
}
impl RawLax {
    pub fn eval(&self, m: &[u64]) -> RawLax {
        RawLax {
            nodes: evs(&self.nodes, m),
            edges: evs(&self.edges, m),
            adj: self.adj.iter().map(|(a, b)| (evs(a, m), evs(b, m))).collect(),
            quot: self.quot.iter().map(|(a, b)| (ev(*a, m), ev(*b, m))).collect(),
            s: evs(&self.s, m),
            t: evs(&self.t, m),
        }
    }
    pub fn show(&self) -> String {
        let ts = |xs: &[T]| format!("[{}]", xs.iter().map(|t| tshow(*t)).collect::<Vec<_>>().join(","));
        format!(
            "{{\"nodes\":{},\"edges\":{},\"adjacency\":[{}],\"quotient\":[{}],\"sources\":{},\"targets\":{}}}",
            ts(&self.nodes),
            ts(&self.edges),
            self.adj.iter().map(|(a, b)| format!("[{},{}]", ts(a), ts(b))).collect::<Vec<_>>().join(","),
            self.quot.iter().map(|(a, b)| format!("[{},{}]", tshow(*a), tshow(*b))).collect::<Vec<_>>().join(","),
            ts(&self.s),
            ts(&self.t)
        )
    }
    pub fn id(t: T) -> usize {
        tm::as_const(t).expect("ENGINE-ERROR: lax node identifiers are concrete") as usize
    }
}

pub fn ev(t: T, m: &[u64]) -> T {
    let w = tm::width(t);
    let v = tm::st(|s| s.eval(t, m));
    if w == 0 {
        tm::bconst(v != 0)
    } else {
        tm::c(v, w)
    }
}
fn evs(ts: &[T], m: &[u64]) -> Vec<T> {
    ts.iter().map(|t| ev(*t, m)).collect()
}
impl RawFF {
    pub fn eval(&self, m: &[u64]) -> RawFF {
        RawFF { table: evs(&self.table, m), target: ev(self.target, m) }
    }
}
impl RawIC {
    pub fn eval(&self, m: &[u64]) -> RawIC {
        RawIC { sizes: evs(&self.sizes, m), sizes_target: ev(self.sizes_target, m), vals: evs(&self.vals, m), vals_target: ev(self.vals_target, m) }
    }
}
impl RawH {
    pub fn eval(&self, m: &[u64]) -> RawH {
        RawH { s: self.s.eval(m), t: self.t.eval(m), w: evs(&self.w, m), x: evs(&self.x, m) }
    }
}
impl RawOH {
    pub fn eval(&self, m: &[u64]) -> RawOH {
        RawOH { s: self.s.eval(m), t: self.t.eval(m), h: self.h.eval(m) }
    }
}
impl PV {
    pub fn eval(&self, m: &[u64]) -> PV {
        match self {
            PV::T(t) => PV::T(ev(*t, m)),
            PV::List(xs) => PV::List(xs.iter().map(|x| x.eval(m)).collect()),
            PV::None => PV::None,
            PV::Some(x) => PV::Some(Box::new(x.eval(m))),
            PV::Tag(s, xs) => PV::Tag(s.clone(), xs.iter().map(|x| x.eval(m)).collect()),
            PV::FF(f) => PV::FF(f.eval(m)),
            PV::IC(f) => PV::IC(f.eval(m)),
            PV::H(f) => PV::H(f.eval(m)),
            PV::OH(f) => PV::OH(f.eval(m)),
            PV::Lax(f) => PV::Lax(f.eval(m)),
            PV::Panic(s) => PV::Panic(s.clone()),
        }
    }
    /// compact rendering (constants as numbers) for evidence samples and replay files
    pub fn show(&self) -> String {
        fn ts(xs: &[T]) -> String {
            format!("[{}]", xs.iter().map(|t| tshow(*t)).collect::<Vec<_>>().join(","))
        }
        fn ic(i: &RawIC) -> String {
            format!("{{\"sizes\":{},\"sizes_target\":{},\"values\":{},\"values_target\":{}}}", ts(&i.sizes), tshow(i.sizes_target), ts(&i.vals), tshow(i.vals_target))
        }
        fn h(h: &RawH) -> String {
            format!("{{\"s\":{},\"t\":{},\"w\":{},\"x\":{}}}", ic(&h.s), ic(&h.t), ts(&h.w), ts(&h.x))
        }
        fn ff(f: &RawFF) -> String {
            format!("{{\"table\":{},\"target\":{}}}", ts(&f.table), tshow(f.target))
        }
        match self {
            PV::T(t) => tshow(*t),
            PV::List(xs) => format!("[{}]", xs.iter().map(|x| x.show()).collect::<Vec<_>>().join(",")),
            PV::None => "null".into(),
            PV::Some(x) => format!("{{\"some\":{}}}", x.show()),
            PV::Tag(s, xs) => format!("{{\"{}\":[{}]}}", s, xs.iter().map(|x| x.show()).collect::<Vec<_>>().join(",")),
            PV::FF(f) => ff(f),
            PV::IC(i) => ic(i),
            PV::H(x) => h(x),
            PV::OH(o) => format!("{{\"s\":{},\"t\":{},\"h\":{}}}", ff(&o.s), ff(&o.t), h(&o.h)),
            PV::Lax(l) => l.show(),
            PV::Panic(s) => format!("{{\"panic\":{}}}", crate::json::quote(s)),
        }
    }
}
pub fn tshow(t: T) -> String {
    match tm::as_const(t) {
        Some(v) => {
            if tm::width(t) == 0 {
                (if v != 0 { "true" } else { "false" }).into()
            } else {
                v.to_string()
            }
        }
        None => format!("\"<t{}>\"", t),
    }
}

// ------------------------------------------------------------------ term helpers
pub fn ci(v: usize) -> T {
    tm::c(v as u64, iw())
}
pub fn cl(v: u64) -> T {
    tm::c(v, lw())
}
pub fn all_eq(a: &[T], b: &[T]) -> T {
    if a.len() != b.len() {
        return tm::FALSE;
    }
    tm::and(a.iter().zip(b.iter()).map(|(x, y)| tm::eq(*x, *y)).collect())
}
pub fn sum_terms(xs: &[T]) -> T {
    let mut a = ci(0);
    for x in xs {
        a = tm::add(a, *x);
    }
    a
}

// ------------------------------------------------------------------ symbolic input generators
/// `n` fresh index variables, each `< ub`
pub fn gen_idx(n: usize, ub: usize, name: &str) -> Vec<T> {
    (0..n).map(|_| fresh(name, iw(), Some(ub as u64))).collect()
}
pub fn gen_labels(n: usize, name: &str) -> Vec<T> {
    (0..n).map(|_| fresh(name, lw(), None)).collect()
}
/// `x` fresh sizes summing to exactly `total` (any split, zeros included)
pub fn gen_sizes(x: usize, total: usize, name: &str) -> Vec<T> {
    if x == 0 {
        if total != 0 {
            std::panic::panic_any(Infeasible);
        }
        return vec![];
    }
    let v: Vec<T> = (0..x).map(|_| fresh(name, iw(), Some(total as u64 + 1))).collect();
    assume(tm::eq(sum_terms(&v), ci(total)));
    v
}

/// shape of an open hypergraph: (W nodes, X edges, S total source incidences, T total target incidences, A inputs, B outputs)
#[derive(Clone, Copy, Debug, PartialEq, Eq, Hash, PartialOrd, Ord)]
pub struct Shape {
    pub w: usize,
    pub x: usize,
    pub s: usize,
    pub t: usize,
    pub a: usize,
    pub b: usize,
}
impl Shape {
    pub fn new(w: usize, x: usize, s: usize, t: usize, a: usize, b: usize) -> Self {
        Shape { w, x, s, t, a, b }
    }
    /// does any well-formed diagram have this shape?
    pub fn inhabited(&self) -> bool {
        (self.w > 0 || (self.s == 0 && self.t == 0 && self.a == 0 && self.b == 0)) && (self.x > 0 || (self.s == 0 && self.t == 0))
    }
    pub fn show(&self) -> String {
        format!("W{}X{}S{}T{}A{}B{}", self.w, self.x, self.s, self.t, self.a, self.b)
    }
}

pub fn gen_ic(x: usize, total: usize, w: usize, name: &str) -> RawIC {
    RawIC {
        sizes: gen_sizes(x, total, &format!("{}z", name)),
        sizes_target: ci(total + 1),
        vals: gen_idx(total, w, &format!("{}v", name)),
        vals_target: ci(w),
    }
}
pub fn gen_h(sh: &Shape, name: &str) -> RawH {
    RawH {
        s: gen_ic(sh.x, sh.s, sh.w, &format!("{}s", name)),
        t: gen_ic(sh.x, sh.t, sh.w, &format!("{}t", name)),
        w: gen_labels(sh.w, &format!("{}w", name)),
        x: gen_labels(sh.x, &format!("{}x", name)),
    }
}
/// an arbitrary well-formed open hypergraph of the given shape: every wiring, arity split and label is a solver variable
pub fn gen_oh(sh: &Shape, name: &str) -> RawOH {
    RawOH {
        h: gen_h(sh, name),
        s: RawFF { table: gen_idx(sh.a, sh.w, &format!("{}a", name)), target: ci(sh.w) },
        t: RawFF { table: gen_idx(sh.b, sh.w, &format!("{}b", name)), target: ci(sh.w) },
    }
}

// ------------------------------------------------------------------ plain model
#[derive(Clone, Debug)]
pub struct PEdge {
    pub lab: T,
    pub src: Vec<T>,
    pub tgt: Vec<T>,
}
/// Plain model of an open hypergraph: a universe of `n` candidate nodes (only `alive` ones exist),
/// ordered hyperedges and the two interfaces; node references are index terms.
#[derive(Clone, Debug)]
pub struct Plain {
    pub n: usize,
    pub alive: Vec<T>,
    pub lab: Vec<T>,
    pub s: Vec<T>,
    pub t: Vec<T>,
    pub edges: Vec<PEdge>,
}

/// split `vals` into consecutive segments of the given (possibly symbolic → concretised) sizes
pub fn segments(ic: &RawIC) -> Vec<Vec<T>> {
    let mut out = vec![];
    let mut p = 0usize;
    for sz in &ic.sizes {
        let k = concretize(*sz) as usize;
        assert!(p + k <= ic.vals.len(), "ENGINE-ERROR: segment sizes exceed value length (ill-formed segmented array handed to the oracle)");
        out.push(ic.vals[p..p + k].to_vec());
        p += k;
    }
    out
}

pub fn plain_of(f: &RawOH) -> Plain {
    let n = f.h.w.len();
    let ss = segments(&f.h.s);
    let tt = segments(&f.h.t);
    assert_eq!(ss.len(), f.h.x.len());
    assert_eq!(tt.len(), f.h.x.len());
    Plain {
        n,
        alive: vec![tm::TRUE; n],
        lab: f.h.w.clone(),
        s: f.s.table.clone(),
        t: f.t.table.clone(),
        edges: (0..f.h.x.len()).map(|i| PEdge { lab: f.h.x[i], src: ss[i].clone(), tgt: tt[i].clone() }).collect(),
    }
}

/// Deep well-formedness of raw open-hypergraph data, as a formula (C05).
pub fn wf_oh(f: &RawOH) -> T {
    let w = ci(f.h.w.len());
    let x = f.h.x.len();
    let ic_ok = |ic: &RawIC| {
        let sum = sum_terms(&ic.sizes);
        tm::and(vec![
            tm::bconst(ic.sizes.len() == x),
            tm::eq(sum, ci(ic.vals.len())),
            tm::eq(ic.sizes_target, tm::add(sum, ci(1))),
            tm::eq(ic.vals_target, w),
            tm::and(ic.vals.iter().map(|v| tm::ult(*v, w)).collect()),
            tm::and(ic.sizes.iter().map(|v| tm::ult(*v, ic.sizes_target)).collect()),
        ])
    };
    tm::and(vec![
        ic_ok(&f.h.s),
        ic_ok(&f.h.t),
        tm::eq(f.s.target, w),
        tm::eq(f.t.target, w),
        tm::and(f.s.table.iter().map(|v| tm::ult(*v, w)).collect()),
        tm::and(f.t.table.iter().map(|v| tm::ult(*v, w)).collect()),
    ])
}

/// labels of a list of node references
pub fn labels_of(p: &Plain, refs: &[T]) -> Vec<T> {
    refs.iter().map(|r| tm::select(&p.lab, *r)).collect()
}

/// Transitive closure by repeated squaring of the adjacency matrix (deliberately a different
/// algorithm from the backend model's Warshall closure).
pub fn closure_sq(n: usize, direct: impl Fn(usize, usize) -> T, reflexive: bool) -> Vec<Vec<T>> {
    let mut m: Vec<Vec<T>> = (0..n).map(|i| (0..n).map(|j| if reflexive && i == j { tm::TRUE } else { direct(i, j) }).collect()).collect();
    let mut len = 1;
    while len < n.max(1) {
        let mut nx = m.clone();
        for i in 0..n {
            for j in 0..n {
                let mut alts = vec![m[i][j]];
                for k in 0..n {
                    alts.push(tm::and2(m[i][k], m[k][j]));
                }
                nx[i][j] = tm::or(alts);
            }
        }
        m = nx;
        len *= 2;
    }
    m
}

/// Equivalence closure of pairs (u_i ~ v_i) on 0..n; returns rep(a) = least member of a's class.
pub fn reps_of_pairs(n: usize, pairs: &[(T, T)]) -> Vec<T> {
    let conn = closure_sq(
        n,
        |i, j| {
            tm::or(
                pairs
                    .iter()
                    .map(|(u, v)| tm::or2(tm::and2(tm::eq(*u, ci(i)), tm::eq(*v, ci(j))), tm::and2(tm::eq(*u, ci(j)), tm::eq(*v, ci(i)))))
                    .collect(),
            )
        },
        true,
    );
    (0..n)
        .map(|a| {
            let mut r = ci(a);
            for b in (0..a).rev() {
                r = tm::ite(conn[a][b], ci(b), r);
            }
            r
        })
        .collect()
}

/// Quotient a plain model by pairs of node references: class representative stays alive, references are mapped to it.
pub fn glue(p: &Plain, pairs: &[(T, T)]) -> Plain {
    let rep = reps_of_pairs(p.n, pairs);
    let m = |v: &T| tm::select(&rep, *v);
    Plain {
        n: p.n,
        alive: (0..p.n).map(|a| tm::and2(p.alive[a], tm::eq(rep[a], ci(a)))).collect(),
        lab: p.lab.clone(),
        s: p.s.iter().map(m).collect(),
        t: p.t.iter().map(m).collect(),
        edges: p.edges.iter().map(|e| PEdge { lab: e.lab, src: e.src.iter().map(m).collect(), tgt: e.tgt.iter().map(m).collect() }).collect(),
    }
}

/// Juxtaposition of two plain models (second one shifted by the first one's universe size).
pub fn juxtapose(f: &Plain, g: &Plain) -> Plain {
    let off = |v: &T| tm::add(*v, ci(f.n));
    let mut alive = f.alive.clone();
    alive.extend(g.alive.iter().cloned());
    let mut lab = f.lab.clone();
    lab.extend(g.lab.iter().cloned());
    let mut edges = f.edges.clone();
    edges.extend(g.edges.iter().map(|e| PEdge { lab: e.lab, src: e.src.iter().map(off).collect(), tgt: e.tgt.iter().map(off).collect() }));
    let mut s = f.s.clone();
    s.extend(g.s.iter().map(off));
    let mut t = f.t.clone();
    t.extend(g.t.iter().map(off));
    Plain { n: f.n + g.n, alive, lab, s, t, edges }
}

/// Reference pushout: glue f and g along f.t[i] ~ g.s[i]; interfaces are f's inputs and g's outputs.
pub fn pushout(f: &Plain, g: &Plain) -> Plain {
    assert_eq!(f.t.len(), g.s.len());
    let j = juxtapose(f, g);
    let pairs: Vec<(T, T)> = f.t.iter().zip(g.s.iter()).map(|(a, b)| (*a, tm::add(*b, ci(f.n)))).collect();
    let mut r = glue(&j, &pairs);
    r.s.truncate(f.s.len());
    r.t = r.t[f.t.len()..].to_vec();
    r
}

pub fn perms(n: usize) -> Vec<Vec<usize>> {
    if n == 0 {
        return vec![vec![]];
    }
    let mut out = vec![];
    for p in perms(n - 1) {
        for i in 0..n {
            let mut q = p.clone();
            q.insert(i, n - 1);
            out.push(q);
        }
    }
    out
}

/// Isomorphism of open hypergraphs as a quantifier-free formula (no search over node bijections):
/// for some arity-preserving edge bijection π, the node-occurrence sequences have the same equality
/// pattern, labels agree position-wise (nodes) and under π (edges), and the nodes occurring nowhere
/// have the same label multiset on both sides.
pub fn iso(p: &Plain, q: &Plain) -> T {
    if p.s.len() != q.s.len() || p.t.len() != q.t.len() || p.edges.len() != q.edges.len() {
        return tm::FALSE;
    }
    let x = p.edges.len();
    let mut alts = vec![];
    for pi in perms(x) {
        if (0..x).any(|e| p.edges[e].src.len() != q.edges[pi[e]].src.len() || p.edges[e].tgt.len() != q.edges[pi[e]].tgt.len()) {
            continue;
        }
        let mut sp: Vec<T> = p.s.clone();
        sp.extend(p.t.iter().cloned());
        let mut sq: Vec<T> = q.s.clone();
        sq.extend(q.t.iter().cloned());
        let mut cs = vec![];
        for e in 0..x {
            let (a, b) = (&p.edges[e], &q.edges[pi[e]]);
            cs.push(tm::eq(a.lab, b.lab));
            sp.extend(a.src.iter().cloned());
            sp.extend(a.tgt.iter().cloned());
            sq.extend(b.src.iter().cloned());
            sq.extend(b.tgt.iter().cloned());
        }
        for i in 0..sp.len() {
            cs.push(tm::eq(tm::select(&p.lab, sp[i]), tm::select(&q.lab, sq[i])));
            for j in 0..i {
                cs.push(tm::iff(tm::eq(sp[i], sp[j]), tm::eq(sq[i], sq[j])));
            }
        }
        // invisible nodes: alive and occurring nowhere; their label multisets must agree
        let invis = |m: &Plain, seq: &[T], u: usize| {
            let mut c = vec![m.alive[u]];
            for o in seq {
                c.push(tm::ne(*o, ci(u)));
            }
            tm::and(c)
        };
        let ip: Vec<T> = (0..p.n).map(|u| invis(p, &sp, u)).collect();
        let iq: Vec<T> = (0..q.n).map(|u| invis(q, &sq, u)).collect();
        let cntl = |m: &Plain, iv: &[T], l: T| tm::count(&(0..m.n).map(|u| tm::and2(iv[u], tm::eq(m.lab[u], l))).collect::<Vec<_>>(), iw());
        for u in 0..p.n {
            cs.push(tm::implies(ip[u], tm::eq(cntl(p, &ip, p.lab[u]), cntl(q, &iq, p.lab[u]))));
        }
        for u in 0..q.n {
            cs.push(tm::implies(iq[u], tm::eq(cntl(p, &ip, q.lab[u]), cntl(q, &iq, q.lab[u]))));
        }
        alts.push(tm::and(cs));
    }
    tm::or(alts)
}

/// position-wise label equality of two node-reference lists in two models (types agree)
pub fn types_equal(p: &Plain, ps: &[T], q: &Plain, qs: &[T]) -> T {
    if ps.len() != qs.len() {
        return tm::FALSE;
    }
    all_eq(&labels_of(p, ps), &labels_of(q, qs))
}

// ------------------------------------------------------------------ PV accessors
impl PV {
    pub fn list(&self) -> &Vec<PV> {
        match self {
            PV::List(v) => v,
            other => panic!("ENGINE-ERROR: expected list, got {:?}", other),
        }
    }
    pub fn at(&self, i: usize) -> &PV {
        &self.list()[i]
    }
    pub fn oh(&self) -> &RawOH {
        match self {
            PV::OH(f) => f,
            other => panic!("ENGINE-ERROR: expected open hypergraph, got {:?}", other),
        }
    }
    pub fn h(&self) -> &RawH {
        match self {
            PV::H(f) => f,
            other => panic!("ENGINE-ERROR: expected hypergraph, got {:?}", other),
        }
    }
    pub fn ff(&self) -> &RawFF {
        match self {
            PV::FF(f) => f,
            other => panic!("ENGINE-ERROR: expected finite function, got {:?}", other),
        }
    }
    pub fn ic(&self) -> &RawIC {
        match self {
            PV::IC(f) => f,
            other => panic!("ENGINE-ERROR: expected segmented array, got {:?}", other),
        }
    }
    pub fn lax(&self) -> &RawLax {
        match self {
            PV::Lax(f) => f,
            other => panic!("ENGINE-ERROR: expected lax diagram, got {:?}", other),
        }
    }
    pub fn t(&self) -> T {
        match self {
            PV::T(t) => *t,
            other => panic!("ENGINE-ERROR: expected term, got {:?}", other),
        }
    }
    /// list of terms
    pub fn ts(&self) -> Vec<T> {
        self.list().iter().map(|x| x.t()).collect()
    }
    pub fn of_ts(ts: &[T]) -> PV {
        PV::List(ts.iter().map(|t| PV::T(*t)).collect())
    }
    pub fn is_panic(&self) -> bool {
        matches!(self, PV::Panic(_))
    }
    /// `Some(x)` payload
    pub fn some(&self) -> Option<&PV> {
        match self {
            PV::Some(b) => Some(&**b),
            _ => None,
        }
    }
}

/// raw data equality of two open hypergraphs (every array element-wise, every codomain)
pub fn raw_ff_eq(a: &RawFF, b: &RawFF) -> T {
    tm::and(vec![all_eq(&a.table, &b.table), tm::eq(a.target, b.target)])
}
pub fn raw_ic_eq(a: &RawIC, b: &RawIC) -> T {
    tm::and(vec![all_eq(&a.sizes, &b.sizes), tm::eq(a.sizes_target, b.sizes_target), all_eq(&a.vals, &b.vals), tm::eq(a.vals_target, b.vals_target)])
}
pub fn raw_h_eq(a: &RawH, b: &RawH) -> T {
    tm::and(vec![raw_ic_eq(&a.s, &b.s), raw_ic_eq(&a.t, &b.t), all_eq(&a.w, &b.w), all_eq(&a.x, &b.x)])
}
pub fn raw_oh_eq(a: &RawOH, b: &RawOH) -> T {
    tm::and(vec![raw_ff_eq(&a.s, &b.s), raw_ff_eq(&a.t, &b.t), raw_h_eq(&a.h, &b.h)])
}

// ------------------------------------------------------------------ lax diagrams
/// shape of a lax open hypergraph: nodes, per-edge (source arity, target arity), pending pairs, interface lengths
#[derive(Clone, Debug, PartialEq, Eq, Hash)]
pub struct LaxShape {
    pub n: usize,
    pub arities: Vec<(usize, usize)>,
    pub q: usize,
    pub a: usize,
    pub b: usize,
}
impl LaxShape {
    pub fn new(n: usize, arities: &[(usize, usize)], q: usize, a: usize, b: usize) -> Self {
        LaxShape { n, arities: arities.to_vec(), q, a, b }
    }
    pub fn refs(&self) -> usize {
        self.arities.iter().map(|(x, y)| x + y).sum::<usize>() + 2 * self.q + self.a + self.b
    }
    pub fn inhabited(&self) -> bool {
        self.n > 0 || self.refs() == 0
    }
    pub fn show(&self) -> String {
        format!("N{}E{:?}Q{}A{}B{}", self.n, self.arities, self.q, self.a, self.b).replace(' ', "")
    }
}
/// every lax diagram of the shape: node identifiers enumerated (all wirings), labels symbolic
pub fn gen_lax(sh: &LaxShape, name: &str) -> RawLax {
    let id = |_: ()| ci(choose(sh.n));
    let ids = |k: usize| (0..k).map(|_| id(())).collect::<Vec<T>>();
    RawLax {
        nodes: gen_labels(sh.n, &format!("{}n", name)),
        edges: gen_labels(sh.arities.len(), &format!("{}e", name)),
        adj: sh.arities.iter().map(|(x, y)| (ids(*x), ids(*y))).collect(),
        quot: (0..sh.q).map(|_| (id(()), id(()))).collect(),
        s: ids(sh.a),
        t: ids(sh.b),
    }
}
/// raw equality of two lax diagrams: identical identifiers everywhere and equal labels
pub fn raw_lax_eq(a: &RawLax, b: &RawLax) -> T {
    if a.nodes.len() != b.nodes.len() || a.edges.len() != b.edges.len() || a.adj.len() != b.adj.len() || a.quot.len() != b.quot.len() {
        return tm::FALSE;
    }
    let mut cs = vec![all_eq(&a.nodes, &b.nodes), all_eq(&a.edges, &b.edges), all_eq(&a.s, &b.s), all_eq(&a.t, &b.t)];
    for ((x, y), (u, v)) in a.adj.iter().zip(b.adj.iter()) {
        cs.push(all_eq(x, u));
        cs.push(all_eq(y, v));
    }
    for ((x, y), (u, v)) in a.quot.iter().zip(b.quot.iter()) {
        cs.push(tm::eq(*x, *u));
        cs.push(tm::eq(*y, *v));
    }
    tm::and(cs)
}
/// plain model of a quotient-free lax diagram
pub fn plain_of_lax(l: &RawLax) -> Plain {
    Plain {
        n: l.nodes.len(),
        alive: vec![tm::TRUE; l.nodes.len()],
        lab: l.nodes.clone(),
        s: l.s.clone(),
        t: l.t.clone(),
        edges: l.edges.iter().zip(l.adj.iter()).map(|(x, (a, b))| PEdge { lab: *x, src: a.clone(), tgt: b.clone() }).collect(),
    }
}
/// the strict meaning of a lax diagram: quotient by the pending pairs
pub fn strict_of_lax(l: &RawLax) -> Plain {
    let mut p = plain_of_lax(l);
    if !l.quot.is_empty() {
        p = glue(&p, &l.quot);
    }
    p
}

/// drop the dead nodes of a plain model whose alive flags and node references are all constants
/// (the case for lax diagrams, whose identifiers are concrete); identity when every node is alive
pub fn compact(p: &Plain) -> Plain {
    if p.alive.iter().all(|a| *a == tm::TRUE) {
        return p.clone();
    }
    let alive: Vec<bool> = p.alive.iter().map(|a| tm::as_const(*a).expect("ENGINE-ERROR: compact needs concrete alive flags") != 0).collect();
    let mut new_index = vec![usize::MAX; p.n];
    let mut k = 0;
    for u in 0..p.n {
        if alive[u] {
            new_index[u] = k;
            k += 1;
        }
    }
    let m = |t: &T| ci(new_index[tm::as_const(*t).expect("ENGINE-ERROR: compact needs concrete references") as usize]);
    Plain {
        n: k,
        alive: vec![tm::TRUE; k],
        lab: (0..p.n).filter(|u| alive[*u]).map(|u| p.lab[u]).collect(),
        s: p.s.iter().map(m).collect(),
        t: p.t.iter().map(m).collect(),
        edges: p.edges.iter().map(|e| PEdge { lab: e.lab, src: e.src.iter().map(m).collect(), tgt: e.tgt.iter().map(m).collect() }).collect(),
    }
}
