//! Job scheduling, the per-path decision protocol (solver verdict → native replay), and evidence.
use crate::explore::*;
use crate::json::J;
use crate::plain::PV;
use crate::solver::Sat;
use crate::term::{self as tm, T};
use std::panic::{catch_unwind, AssertUnwindSafe};
use std::sync::atomic::{AtomicUsize, Ordering};
use std::sync::{Arc, Mutex};
use std::time::{Duration, Instant};

#[derive(Clone, Debug)]
pub enum Verdict {
    Holds,
    /// solver found inputs violating the property and the real code reproduces it natively
    Violation { what: String, model: Vec<u64>, inputs: String, native: String },
    /// solver model did not reproduce natively: the encoding (not the library) is wrong
    Mismatch { what: String, model: Vec<u64>, inputs: String, native: String, symbolic: String },
    /// the solver answered `unknown` on the final obligation
    Unknown,
}

#[derive(Clone, Debug)]
pub struct PathReport {
    pub verdict: Verdict,
    /// the native run on this path's model input agreed with the symbolic result under that model
    pub validated: bool,
    /// the property (constant-folded oracle) also held on the native result for this path's model
    pub native_ok: bool,
    pub sample: String,
    pub obligations: u64,
    pub outcome_class: String,
    pub observations: Vec<String>,
    /// cross-check script (pc ∧ ¬goal) when requested
    pub script: Option<String>,
    /// enumerated choices (lax node identifiers) made on this path
    pub choices: Vec<usize>,
}

pub struct Job {
    pub name: String,
    pub cfg: Cfg,
    pub budget: Duration,
    pub mandatory: bool,
    pub body: Arc<dyn Fn() -> PathReport + Send + Sync>,
}

pub struct JobResult {
    pub name: String,
    pub reports: Vec<PathReport>,
    pub stats: Stats,
    pub engine_error: Option<String>,
    pub wall_s: f64,
    pub ran: bool,
}

thread_local! {
    static WANT_SCRIPT: std::cell::Cell<bool> = std::cell::Cell::new(false);
}
/// number of standalone obligation scripts still wanted for the cross-solver check
pub static XCHECK_WANTED: std::sync::atomic::AtomicIsize = std::sync::atomic::AtomicIsize::new(0);
pub fn set_want_script(b: bool) {
    WANT_SCRIPT.with(|w| w.set(b));
}

fn native<R>(f: impl FnOnce() -> R) -> Result<R, String> {
    match catch_unwind(AssertUnwindSafe(f)) {
        Ok(v) => Ok(v),
        Err(e) => Err(if let Some(s) = e.downcast_ref::<String>() {
            s.clone()
        } else if let Some(s) = e.downcast_ref::<&str>() {
            s.to_string()
        } else {
            "panic".to_string()
        }),
    }
}

fn same_outcome(a: &PV, b: &PV) -> bool {
    match (a, b) {
        (PV::Panic(_), PV::Panic(_)) => true,
        _ => a == b,
    }
}

pub struct Decide<'a> {
    /// symbolic inputs
    pub inputs: &'a PV,
    /// run the real code at the symbolic backend
    pub run_sym: &'a dyn Fn() -> PV,
    /// run the real code natively (VecKind) on constant inputs
    pub run_nat: &'a dyn Fn(&PV) -> PV,
    /// the property as a formula over inputs and outcome; must be valid under the path condition
    pub oracle: &'a dyn Fn(&PV, &PV) -> T,
    /// number of atomic obligations conjoined in the oracle (for evidence)
    pub obligations: u64,
    /// compare native and symbolic results for equality (off in adversarial mode)
    pub compare_native: bool,
}

/// The per-path decision protocol shared by all Engine-S checks.
pub fn decide(d: Decide) -> PathReport {
    let out = match catch(|| (d.run_sym)()) {
        Ok(pv) => pv,
        Err(msg) => PV::Panic(msg),
    };
    let goal = (d.oracle)(d.inputs, &out);
    let outcome_class = match &out {
        PV::Panic(m) => format!("panic: {}", m.chars().take(60).collect::<String>()),
        PV::None => "None".into(),
        PV::Some(_) => "Some".into(),
        PV::Tag(t, _) => t.clone(),
        _ => "value".into(),
    };
    // --- encoder validation + native property check on this path's own model
    let m = current_model();
    let inputs_c = d.inputs.eval(&m);
    let nat = match native(|| (d.run_nat)(&inputs_c)) {
        Ok(pv) => pv,
        Err(msg) => PV::Panic(msg),
    };
    let expected = out.eval(&m);
    let validated = !d.compare_native || same_outcome(&nat, &expected);
    let goal_c = (d.oracle)(&inputs_c, &nat);
    let native_ok = tm::st(|s| s.eval(goal_c, &m)) != 0;
    let sample = inputs_c.show();
    let mut rep = PathReport {
        verdict: Verdict::Holds,
        validated,
        native_ok,
        sample: sample.clone(),
        obligations: d.obligations,
        outcome_class,
        observations: vec![],
        script: None,
        choices: choices(),
    };
    // --- the deciding step: is pc ∧ ¬goal satisfiable?
    let neg = tm::not(goal);
    // cross-solver sample: the first non-trivial obligation of a job, while scripts are still wanted
    if neg != tm::FALSE && (WANT_SCRIPT.with(|w| w.get()) || (with_ctx(|c| c.stats.paths) == 0 && XCHECK_WANTED.fetch_sub(1, Ordering::SeqCst) > 0)) {
        rep.script = Some(standalone_script(neg));
    }
    let (r, vm) = check_sat_with(neg, true);
    match r {
        Sat::Unsat => {}
        Sat::Unknown => rep.verdict = Verdict::Unknown,
        Sat::Sat => {
            let vm = vm.unwrap();
            tm::st(|s| s.new_stamp());
            let inputs_v = d.inputs.eval(&vm);
            let nat = match native(|| (d.run_nat)(&inputs_v)) {
                Ok(pv) => pv,
                Err(msg) => PV::Panic(msg),
            };
            let symbolic = out.eval(&vm);
            // adversarial backends (C20): the violating run is the real generic code on the conforming backend
            // whose open choices are fixed by the model, i.e. this path's outcome evaluated under the model
            let judged = if d.compare_native { &nat } else { &symbolic };
            let goal_v = (d.oracle)(&inputs_v, judged);
            let holds_natively = tm::st(|s| s.eval(goal_v, &vm)) != 0;
            // restore memoisation for the path model
            tm::st(|s| s.new_stamp());
            if !holds_natively {
                let what = if d.compare_native { "solver counterexample reproduced on the native build".to_string() } else { format!("solver counterexample: on a conforming backend resolving the open choices as in the model the real code returns {} (VecKind returns the native outcome)", symbolic.show()) };
                rep.verdict = Verdict::Violation { what, model: vm, inputs: inputs_v.show(), native: nat.show() };
            } else {
                rep.verdict = Verdict::Mismatch { what: "solver counterexample does not reproduce natively".into(), model: vm, inputs: inputs_v.show(), native: nat.show(), symbolic: symbolic.show() };
            }
        }
    }
    if matches!(rep.verdict, Verdict::Holds) {
        if !native_ok {
            // solver says the obligation holds on this path but the real code violates it on the path's own model
            rep.verdict = Verdict::Violation { what: "property fails on the native run of this path's model (not predicted by the encoding)".into(), model: m.clone(), inputs: sample, native: nat.show() };
        } else if !validated {
            rep.verdict = Verdict::Mismatch { what: "native result differs from symbolic result under the path model".into(), model: m.clone(), inputs: sample, native: nat.show(), symbolic: expected.show() };
        }
    }
    rep
}

pub fn run_jobs(jobs: Vec<Job>, threads: usize, deadline: Option<Instant>) -> Vec<JobResult> {
    let n = jobs.len();
    let jobs = Arc::new(jobs);
    let next = Arc::new(AtomicUsize::new(0));
    let results: Arc<Mutex<Vec<Option<JobResult>>>> = Arc::new(Mutex::new((0..n).map(|_| None).collect()));
    let mut hs = vec![];
    for _ in 0..threads.max(1).min(n.max(1)) {
        let (jobs, next, results) = (jobs.clone(), next.clone(), results.clone());
        hs.push(std::thread::Builder::new().stack_size(256 << 20).spawn(move || loop {
            let i = next.fetch_add(1, Ordering::SeqCst);
            if i >= jobs.len() {
                break;
            }
            let job = &jobs[i];
            let late = deadline.map_or(false, |d| Instant::now() > d);
            if late && !job.mandatory {
                results.lock().unwrap()[i] = Some(JobResult { name: job.name.clone(), reports: vec![], stats: Stats::default(), engine_error: None, wall_s: 0.0, ran: false });
                continue;
            }
            let t0 = Instant::now();
            let body = job.body.clone();
            let mut budget = job.budget;
            if let Some(d) = deadline {
                let left = d.saturating_duration_since(Instant::now());
                if !job.mandatory {
                    budget = budget.min(left.max(Duration::from_secs(1)));
                }
            }
            let (reports, stats, engine_error) = explore(job.cfg.clone(), Some(budget), move || body());
            if std::env::var("SYMK_VERBOSE").is_ok() {
                eprintln!("[job] {} paths={} decisions={} queries={} solver={:.1}s wall={:.1}s{}", job.name, stats.paths, stats.decisions, stats.queries, stats.solver_s, t0.elapsed().as_secs_f64(), stats.incomplete.as_ref().map(|s| format!(" INCOMPLETE({})", s)).unwrap_or_default());
            }
            results.lock().unwrap()[i] = Some(JobResult { name: job.name.clone(), reports, stats, engine_error, wall_s: t0.elapsed().as_secs_f64(), ran: true });
        }).unwrap());
    }
    for h in hs {
        let _ = h.join();
    }
    let mut r = results.lock().unwrap();
    r.drain(..).map(|x| x.unwrap()).collect()
}

pub struct Summary {
    pub json: J,
    pub violations: Vec<(String, Verdict, Vec<usize>)>,
    pub mismatches: Vec<(String, Verdict)>,
    pub engine_errors: Vec<String>,
    pub unknowns: u64,
    pub paths: u64,
}

pub fn summarise(results: &[JobResult], functions: &[&str], bounds: &str, cfg_note: &str) -> Summary {
    let mut paths = 0;
    let mut decisions = 0;
    let mut queries = 0;
    let mut solver_s = 0.0;
    let mut validated = 0;
    let mut native_ok = 0;
    let mut obligations = 0;
    let mut discharged = 0;
    let mut unknowns = 0;
    let mut infeasible = 0;
    let mut violations = vec![];
    let mut mismatches = vec![];
    let mut engine_errors = vec![];
    let mut samples: Vec<J> = vec![];
    let mut incomplete: Vec<J> = vec![];
    let mut not_run: Vec<J> = vec![];
    let mut jobs_done = 0;
    let mut classes: std::collections::BTreeMap<String, u64> = Default::default();
    let mut per_job: Vec<J> = vec![];
    let mut sample_finished = 0i64;
    let mut sample_total = 0i64;
    for r in results {
        let is_sample = r.name.starts_with("[thorough-box sample]");
        if is_sample {
            sample_total += 1;
            if r.ran && r.stats.incomplete.is_none() && r.engine_error.is_none() {
                sample_finished += 1;
            }
        }
        if !r.ran {
            if !is_sample {
                not_run.push(J::s(&r.name));
            }
            continue;
        }
        if let Some(e) = &r.engine_error {
            engine_errors.push(format!("{}: {}", r.name, e));
        }
        if let Some(why) = &r.stats.incomplete {
            if !is_sample {
                incomplete.push(J::s(&format!("{} ({})", r.name, why)));
            }
        } else if r.engine_error.is_none() && !is_sample {
            jobs_done += 1;
        }
        paths += r.stats.paths;
        decisions += r.stats.decisions;
        queries += r.stats.queries;
        solver_s += r.stats.solver_s;
        infeasible += r.stats.infeasible;
        let mut jv = 0;
        for p in &r.reports {
            obligations += p.obligations;
            *classes.entry(p.outcome_class.clone()).or_insert(0) += 1;
            if p.validated {
                validated += 1;
            }
            if p.native_ok {
                native_ok += 1;
            }
            match &p.verdict {
                Verdict::Holds => discharged += p.obligations,
                Verdict::Unknown => unknowns += 1,
                v @ Verdict::Violation { .. } => {
                    jv += 1;
                    violations.push((r.name.clone(), v.clone(), p.choices.clone()))
                }
                v @ Verdict::Mismatch { .. } => mismatches.push((r.name.clone(), v.clone())),
            }
        }
        if samples.len() < 6 {
            if let Some(p) = r.reports.iter().rev().next() {
                samples.push(J::obj(vec![("job", J::s(&r.name)), ("inputs", J::Raw(p.sample.clone())), ("outcome", J::s(&p.outcome_class))]));
            }
        }
        per_job.push(J::obj(vec![
            ("job", J::s(&r.name)),
            ("paths", J::I(r.stats.paths as i64)),
            ("decisions", J::I(r.stats.decisions as i64)),
            ("queries", J::I(r.stats.queries as i64)),
            ("solver_s", J::F(r.stats.solver_s)),
            ("wall_s", J::F(r.wall_s)),
            ("violations", J::I(jv)),
        ]));
    }
    let mut timed: Vec<(f64, J)> = results.iter().filter(|r| r.ran).map(|r| r.wall_s).zip(per_job.into_iter()).collect();
    timed.sort_by(|a, b| b.0.partial_cmp(&a.0).unwrap());
    let slowest: Vec<J> = timed.into_iter().take(12).map(|x| x.1).collect();
    let exhaustive = not_run.is_empty() && incomplete.is_empty() && engine_errors.is_empty() && unknowns == 0;
    let json = J::obj(vec![
        ("states", J::I(paths as i64)),
        // explorer decision points: solver-decided branches/concretisations + enumerated identifier choices
        ("transitions", J::I(decisions as i64 + results.iter().map(|r| r.stats.enumerated as i64).sum::<i64>())),
        ("solver_decided_points", J::I(decisions as i64)),
        ("traces_validated_against_impl", J::I(validated as i64)),
        ("native_property_checks_passed", J::I(native_ok as i64)),
        ("samples", J::A(samples)),
        ("obligations", J::I(obligations as i64)),
        ("discharged", J::I(discharged as i64)),
        ("queries", J::I(queries as i64)),
        ("solver_s", J::F(solver_s)),
        ("solver", J::s(&crate::solver::solver_cmd())),
        ("jobs_total", J::I(results.len() as i64 - sample_total)),
        ("thorough_box_sample", J::obj(vec![("offered", J::I(sample_total)), ("finished", J::I(sample_finished))])),
        ("jobs_finished", J::I(jobs_done)),
        ("jobs_incomplete", J::A(incomplete)),
        ("jobs_not_run_budget_count", J::I(not_run.len() as i64)),
        ("jobs_not_run_budget", J::A(not_run.into_iter().take(40).collect())),
        ("infeasible_paths", J::I(infeasible as i64)),
        ("enumerated_choices", J::I(results.iter().map(|r| r.stats.enumerated as i64).sum())),
        ("solver_unknown_final_obligations", J::I(unknowns as i64)),
        ("outcome_classes", J::O(classes.into_iter().map(|(k, v)| (k, J::I(v as i64))).collect())),
        ("functions_encoded", J::A(functions.iter().map(|f| J::s(f)).collect())),
        ("bounds", J::s(bounds)),
        ("engine_config", J::s(cfg_note)),
        ("exhaustive", J::B(exhaustive)),
        ("slowest_jobs", J::A(slowest)),
    ]);
    Summary { json, violations, mismatches, engine_errors, unknowns, paths }
}

// ------------------------------------------------------------------ cases: the common shape of a check
/// One check case: symbolic input generator, the same real-code run at both backends, and the oracle.
#[derive(Clone)]
pub struct Case {
    pub name: String,
    pub gen: Arc<dyn Fn() -> PV + Send + Sync>,
    pub sym: fn(&PV) -> PV,
    pub nat: fn(&PV) -> PV,
    pub oracle: Arc<dyn Fn(&PV, &PV) -> T + Send + Sync>,
    pub obligations: u64,
}

#[macro_export]
macro_rules! case {
    ($name:expr, $gen:expr, $op:ident, $oracle:expr, $obl:expr) => {
        $crate::runner::Case {
            name: $name,
            gen: std::sync::Arc::new($gen),
            sym: $crate::sym::$op,
            nat: $crate::nat::$op,
            oracle: std::sync::Arc::new($oracle),
            obligations: $obl,
        }
    };
}

pub fn case_job(case: Case, cfg: Cfg, budget: Duration, mandatory: bool) -> Job {
    Job {
        name: case.name.clone(),
        cfg,
        budget,
        mandatory,
        body: Arc::new(move || {
            let inputs = (case.gen)();
            let sym = case.sym;
            let nat = case.nat;
            let oracle = case.oracle.clone();
            decide(Decide {
                inputs: &inputs,
                run_sym: &|| sym(&inputs),
                run_nat: &|i| nat(i),
                oracle: &|i, o| oracle(i, o),
                obligations: case.obligations,
                // adversarial backends resolve the open choices differently from VecKind on purpose
                compare_native: !crate::explore::cfg().adversarial(),
            })
        }),
    }
}

/// split a job whose generator enumerates identifiers with `choose(n)` into n^depth jobs, one per
/// prefix of the first `depth` choices, so that the enumeration runs on all cores
pub fn split_by_choices(job: Job, n: usize, depth: usize) -> Vec<Job> {
    if n <= 1 || depth == 0 {
        return vec![job];
    }
    let mut prefixes: Vec<Vec<usize>> = vec![vec![]];
    for _ in 0..depth {
        prefixes = prefixes.into_iter().flat_map(|p| (0..n).map(move |v| { let mut q = p.clone(); q.push(v); q })).collect();
    }
    prefixes
        .into_iter()
        .map(|p| {
            let mut cfg = job.cfg.clone();
            cfg.pin_choices = Some(Arc::new(p.clone()));
            Job { name: format!("{} ids{:?}", job.name, p), cfg, budget: job.budget, mandatory: job.mandatory, body: job.body.clone() }
        })
        .collect()
}
