//! C02 (strict half) — tensor is strict juxtaposition; associative and unital on the nose.
use super::*;
use crate::plain::*;
use crate::runner::*;
use crate::term::{self as tm, T};
use std::time::Duration;

pub fn def() -> CheckDef {
    CheckDef {
        id: "C02",
        functions: &["strict::OpenHypergraph::tensor (Monoidal::tensor, |)", "strict::Hypergraph::coproduct (+)", "IndexedCoproduct::tensor", "FiniteFunction::tensor", "SemifiniteFunction::coproduct", "strict::OpenHypergraph::{source,target,identity}", "Monoidal::unit", "lax::OpenHypergraph::{tensor,empty}", "lax::Hypergraph::coproduct", "lax::mut_category::{tensor_assign,append,coproduct_assign}"],
        bounds_quick: "lax half: pairs of lax diagrams with <=2 nodes, <=1 hyperedge, <=1 pending pair each (<=6 node references per pair, all wirings enumerated, labels symbolic), triples of <=1-node diagrams; strict half: pairs: per operand W<=2, X<=1, S,T<=2, interfaces<=2 (whole box); triples: W<=1, X<=1, S,T<=1, interfaces<=1; unit laws on the pair box",
        bounds_thorough: "pairs W<=3, X<=2, S,T<=3, interfaces<=2; triples W<=2, X<=1",
        jobs,
        budget_s: (100, 1500),
    }
}

fn shift(ts: &[T], by: usize) -> Vec<T> {
    ts.iter().map(|t| tm::add(*t, ci(by))).collect()
}
fn cat(a: &[T], b: &[T]) -> Vec<T> {
    let mut v = a.to_vec();
    v.extend_from_slice(b);
    v
}
/// juxtaposition on raw arrays: f first, g after, g's node references shifted by f's node count
pub fn jux_raw(f: &RawOH, g: &RawOH) -> RawOH {
    let wf = f.h.w.len();
    let wg = g.h.w.len();
    let ic = |a: &RawIC, b: &RawIC| RawIC {
        sizes: cat(&a.sizes, &b.sizes),
        sizes_target: ci(a.vals.len() + b.vals.len() + 1),
        vals: cat(&a.vals, &shift(&b.vals, wf)),
        vals_target: ci(wf + wg),
    };
    RawOH {
        s: RawFF { table: cat(&f.s.table, &shift(&g.s.table, wf)), target: ci(wf + wg) },
        t: RawFF { table: cat(&f.t.table, &shift(&g.t.table, wf)), target: ci(wf + wg) },
        h: RawH { s: ic(&f.h.s, &g.h.s), t: ic(&f.h.t, &g.h.t), w: cat(&f.h.w, &g.h.w), x: cat(&f.h.x, &g.h.x) },
    }
}
fn lab_of(f: &RawOH, refs: &[T]) -> Vec<T> {
    refs.iter().map(|r| tm::select(&f.h.w, *r)).collect()
}

fn oracle_tensor(inp: &PV, out: &PV) -> T {
    if out.is_panic() {
        return tm::FALSE;
    }
    let (f, g) = (inp.at(0).oh(), inp.at(1).oh());
    let want = jux_raw(f, g);
    let r = out.at(0).oh();
    tm::and(vec![
        raw_oh_eq(&want, r),
        raw_oh_eq(&want, out.at(3).oh()),
        wf_oh(r),
        all_eq(&out.at(1).ts(), &cat(&lab_of(f, &f.s.table), &lab_of(g, &g.s.table))),
        all_eq(&out.at(2).ts(), &cat(&lab_of(f, &f.t.table), &lab_of(g, &g.t.table))),
    ])
}
fn oracle_assoc(inp: &PV, out: &PV) -> T {
    if out.is_panic() {
        return tm::FALSE;
    }
    let want = jux_raw(&jux_raw(inp.at(0).oh(), inp.at(1).oh()), inp.at(2).oh());
    tm::and(vec![raw_oh_eq(out.at(0).oh(), out.at(1).oh()), raw_oh_eq(&want, out.at(0).oh())])
}
fn oracle_unit(inp: &PV, out: &PV) -> T {
    if out.is_panic() {
        return tm::FALSE;
    }
    let f = inp.at(0).oh();
    let u = out.at(2).oh();
    tm::and(vec![
        raw_oh_eq(out.at(0).oh(), f),
        raw_oh_eq(out.at(1).oh(), f),
        tm::bconst(u.h.w.is_empty() && u.h.x.is_empty() && u.s.table.is_empty() && u.t.table.is_empty()),
        wf_oh(u),
    ])
}

pub fn jobs(tier: Tier, seed: u64) -> Vec<Job> {
    let per_job = Duration::from_secs(match tier {
        Tier::Quick => 30,
        Tier::Thorough => 600,
    });
    let cfg = base_cfg(tier);
    let mut out = vec![];
    let (pair_box, triple_box) = match tier {
        Tier::Quick => (shapes(2, 1, 2, 2, 2, 2), shapes(1, 1, 1, 1, 1, 1)),
        Tier::Thorough => (shapes(3, 2, 3, 3, 2, 2), shapes(2, 1, 2, 2, 1, 1)),
    };
    for f in &pair_box {
        let f = *f;
        out.push(case_job(crate::case!(format!("unit {}", f.show()), move || PV::List(vec![PV::OH(gen_oh(&f, "f"))]), c02_unit, oracle_unit, 4), cfg.clone(), per_job, tier == Tier::Quick));
    }
    let mut pairs = vec![];
    for f in &pair_box {
        for g in &pair_box {
            pairs.push((*f, *g));
        }
    }
    Rng::new(seed).shuffle(&mut pairs);
    // corner pairs first (empty operands, zero-arity, maximal)
    pairs.sort_by_key(|(f, g)| !((f.w == 0 || g.w == 0) || (f.x == 1 && f.s == 0 && f.t == 0) || (f.w == 2 && g.w == 2 && f.s == 2 && g.t == 2)));
    pairs.truncate(super::c01::MAX_JOBS);
    for (f, g) in pairs {
        out.push(case_job(
            crate::case!(format!("tensor f={} g={}", f.show(), g.show()), move || PV::List(vec![PV::OH(gen_oh(&f, "f")), PV::OH(gen_oh(&g, "g"))]), c02_tensor, oracle_tensor, 5),
            cfg.clone(),
            per_job,
            false,
        ));
    }
    let mut triples = vec![];
    for f in &triple_box {
        for g in &triple_box {
            for h in &triple_box {
                triples.push((*f, *g, *h));
            }
        }
    }
    Rng::new(seed ^ 7).shuffle(&mut triples);
    triples.truncate(super::c01::MAX_JOBS / 2);
    for (f, g, h) in triples {
        out.push(case_job(
            crate::case!(format!("assoc f={} g={} h={}", f.show(), g.show(), h.show()), move || PV::List(vec![PV::OH(gen_oh(&f, "f")), PV::OH(gen_oh(&g, "g")), PV::OH(gen_oh(&h, "h"))]), c02_assoc, oracle_assoc, 2),
            cfg.clone(),
            per_job,
            false,
        ));
    }
    // interleave so that pairs and triples both get budget
    let n = out.len();
    let mut inter: Vec<Job> = Vec::with_capacity(n);
    let (mut a, mut b): (Vec<Job>, Vec<Job>) = out.into_iter().partition(|j| !j.name.starts_with("assoc"));
    a.reverse();
    b.reverse();
    let mut lax = super::lax::c02_lax_jobs(tier, seed);
    lax.reverse();
    while !a.is_empty() || !b.is_empty() || !lax.is_empty() {
        // lax half: the same law for lax diagrams including pending unifications
        for _ in 0..2 {
            if let Some(j) = lax.pop() {
                inter.push(j);
            }
        }
        for _ in 0..4 {
            if let Some(j) = a.pop() {
                inter.push(j);
            }
        }
        if let Some(j) = b.pop() {
            inter.push(j);
        }
    }
    inter
}
