//! C09 — quotienting a lax diagram merges exactly the unified nodes, atomically.
//! Lax tier: the real `lax` code runs natively with symbolic labels (every label comparison it makes is
//! decided by the solver); node identifiers are concrete in the library and are enumerated exhaustively.
use super::*;
use crate::plain::*;
use crate::runner::*;
use crate::term::{self as tm, T};
use std::time::Duration;

pub fn def() -> CheckDef {
    CheckDef {
        id: "C09",
        functions: &["lax::Hypergraph::{quotient,coequalizer}", "lax::OpenHypergraph::quotient", "FiniteFunction::<VecKind>::coequalizer", "finite_function::coequalizer_universal::<VecKind, O>", "array::vec::connected_components"],
        bounds_quick: "lax diagrams with <=3 nodes, one hyperedge of arity <=2->1, <=2 pending pairs (self pairs, repeats, chains), interfaces <=1, and <=4 nodes with <=3 pairs without hyperedges; every wiring enumerated, all labels symbolic; second quotient call (idempotence) on every result",
        bounds_thorough: "<=4 nodes, <=3 pairs, one hyperedge 2->1, interfaces <=2",
        jobs,
        budget_s: (100, 1500),
    }
}

/// least representative of each class of the pending pairs (identifiers are concrete)
pub fn class_reps(n: usize, quot: &[(T, T)]) -> Vec<usize> {
    let mut rep: Vec<usize> = (0..n).collect();
    loop {
        let mut changed = false;
        for (a, b) in quot {
            let (a, b) = (RawLax::id(*a), RawLax::id(*b));
            let m = rep[a].min(rep[b]);
            if rep[a] != m || rep[b] != m {
                let (ra, rb) = (rep[a], rep[b]);
                for r in rep.iter_mut() {
                    if *r == ra || *r == rb {
                        *r = m;
                    }
                }
                changed = true;
            }
        }
        if !changed {
            return rep;
        }
    }
}

/// obligations on one quotient call: `before` --quotient()--> (`res`, `after`)
pub fn quotient_goal(before: &RawLax, res: &PV, after: &RawLax) -> T {
    let n = before.nodes.len();
    let rep = class_reps(n, &before.quot);
    let consistent = tm::and((0..n).map(|u| tm::eq(before.nodes[u], before.nodes[rep[u]])).collect());
    let (tag, rest) = match res {
        PV::Tag(t, r) => (t.as_str(), r),
        _ => return tm::FALSE,
    };
    let q: Vec<usize> = rest[0].ts().iter().map(|t| RawLax::id(*t)).collect();
    let k = RawLax::id(rest[1].t());
    match tag {
        "Err" => tm::and(vec![tm::not(consistent), raw_lax_eq(before, after)]),
        "Ok" => {
            if q.len() != n {
                return tm::FALSE;
            }
            // q is a surjection onto 0..k whose fibres are exactly the classes
            let mut ok = q.iter().all(|v| *v < k) && (0..k).all(|c| q.contains(&c));
            for u in 0..n {
                for v in 0..n {
                    ok &= (q[u] == q[v]) == (rep[u] == rep[v]);
                }
            }
            ok &= after.nodes.len() == k && after.quot.is_empty() && after.adj.len() == before.adj.len() && after.s.len() == before.s.len() && after.t.len() == before.t.len();
            if !ok {
                return tm::FALSE;
            }
            let mapped = |xs: &[T], ys: &[T]| xs.len() == ys.len() && xs.iter().zip(ys.iter()).all(|(x, y)| q[RawLax::id(*x)] == RawLax::id(*y));
            let mut refs_ok = mapped(&before.s, &after.s) && mapped(&before.t, &after.t);
            for ((a, b), (c, d)) in before.adj.iter().zip(after.adj.iter()) {
                refs_ok &= mapped(a, c) && mapped(b, d);
            }
            let mut cs = vec![consistent, tm::bconst(refs_ok), all_eq(&before.edges, &after.edges)];
            for u in 0..n {
                cs.push(tm::eq(after.nodes[q[u]], before.nodes[u]));
            }
            tm::and(cs)
        }
        _ => tm::FALSE,
    }
}

fn oracle(inp: &PV, out: &PV) -> T {
    if out.is_panic() {
        return tm::FALSE;
    }
    let before = inp.at(0).lax();
    let after1 = out.at(1).lax();
    let first = quotient_goal(before, out.at(0), after1);
    // a second call changes nothing (after a success the pending list is empty; after a failure the diagram is unchanged)
    let second = quotient_goal(after1, out.at(2), out.at(3).lax());
    let idem = match out.at(0) {
        PV::Tag(t, _) if t == "Ok" => tm::and(vec![raw_lax_eq(after1, out.at(3).lax()), tm::bconst(matches!(out.at(2), PV::Tag(t2, r) if t2 == "Ok" && r[0].ts().iter().enumerate().all(|(i, v)| RawLax::id(*v) == i)))]),
        _ => tm::TRUE,
    };
    // the plain-hypergraph entry point behaves the same on the hypergraph part
    let mut hb = before.clone();
    hb.s = vec![];
    hb.t = vec![];
    let third = quotient_goal(&hb, out.at(4), out.at(5).lax());
    // the deprecated alias quotient_witness() is the same operation
    let alias = quotient_goal(before, out.at(6).at(0), out.at(6).at(1).lax());
    tm::and(vec![first, second, idem, third, alias])
}

pub fn shapes_for(tier: Tier) -> Vec<LaxShape> {
    let mut v = vec![];
    let nmax = if tier == Tier::Quick { 3 } else { 4 };
    for n in 0..=nmax {
        for q in 0..=(if tier == Tier::Quick { 2 } else { 3 }) {
            for (ar, a, b) in [(vec![], 0, 0), (vec![], 1, 1), (vec![(1usize, 1usize)], 1, 0), (vec![(2, 1)], 1, 1), (vec![(0, 0)], 0, 1)] {
                let sh = LaxShape::new(n, &ar, q, a, b);
                if sh.inhabited() {
                    v.push(sh);
                }
            }
        }
    }
    // more nodes and pairs without hyperedges (long chains)
    v.push(LaxShape::new(4, &[], 3, 1, 0));
    if tier == Tier::Thorough {
        v.push(LaxShape::new(5, &[], 4, 0, 0));
        v.push(LaxShape::new(4, &[(2, 1)], 3, 2, 2));
    }
    v
}

pub fn jobs(tier: Tier, _seed: u64) -> Vec<Job> {
    let per_job = Duration::from_secs(match tier {
        Tier::Quick => 90,
        Tier::Thorough => 600,
    });
    let cfg = base_cfg(tier);
    // the Vec backend's connected components (the gluing step of this property when run on the Vec backend)
    let mut out = super::c07::conformance_jobs(tier, &[3, 5]);
    let mut shs = shapes_for(tier);
    shs.sort_by_key(|s| s.refs());
    for sh in shs {
        let sh2 = sh.clone();
        let c = crate::case!(format!("quotient {}", sh.show()), move || PV::List(vec![PV::Lax(gen_lax(&sh2, "f"))]), c09_quotient, oracle, 12);
        let depth = if sh.refs() >= 7 { 2 } else if sh.refs() >= 5 { 1 } else { 0 };
        out.extend(split_by_choices(case_job(c, cfg.clone(), per_job, tier == Tier::Quick), sh.n, depth));
    }
    out
}
