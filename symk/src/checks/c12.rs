//! C12 (strict core) — functor application is the generator-wise substitution it is defined by.
use super::*;
use crate::explore::{branch, concretize};
use crate::plain::*;
use crate::runner::*;
use crate::term::{self as tm, T};
use std::time::Duration;

pub fn def() -> CheckDef {
    CheckDef {
        id: "C12",
        functions: &["strict::functor::{define_map_arrow,spider_map_arrow,to_operations,map_half_spider}", "strict::functor::identity::Identity", "FiniteFunction::injections", "strict::OpenHypergraph::{compose,tensor,spider,identity,tensor_operations}", "IndexedCoproduct::{map_semifinite,elements}", "Operations::new", "lax::functor::{try_define_map_arrow,map_arrow_witness} (native lax path, subset of the C13 jobs)", "lax::functor::dyn_functor::{define_map_arrow,DynFunctor::{map_object,map_operations,map_arrow},Identity}", "lax::OpenHypergraph::{to_strict,from_strict,tensor_assign}"],
        bounds_quick: "native lax path: the first 240 C13 jobs (quotient-free lax diagrams, <=3 nodes); lax half: lax diagrams with <=3 nodes, <=2 hyperedges, <=1 pending pair (<=6 node references; wirings enumerated, labels symbolic) x seven lax functor families (incl. images that carry pending unifications); strict core: diagrams W<=2, X<=1, S,T<=2, interfaces<=2 (whole box) x six functor families: identity (the crate's), doubling A->[A,A], erasing A->[], label-dependent lengths 0/1/2, composite image (two operations in sequence), spider-only image; preservation of ; (x) dagger id twist on pairs W<=1..2, X<=1 for identity and doubling",
        bounds_thorough: "W<=3, X<=2, S,T<=3",
        jobs,
        budget_s: (170, 1500),
    }
}

pub const FAMILIES: [(u64, &str); 6] = [(0, "identity"), (1, "doubling"), (2, "erasing"), (3, "label-dependent"), (4, "composite-image"), (5, "spider-image")];

/// F on one label, at the oracle (forks on the label class for the label-dependent family)
pub fn obj(fam: u64, l: T) -> Vec<T> {
    match fam {
        0 | 4 | 5 => vec![l],
        1 => vec![l, l],
        2 => vec![],
        3 => {
            if branch(tm::eq(l, cl(0))) {
                vec![]
            } else if branch(tm::eq(l, cl(1))) {
                vec![l]
            } else {
                vec![l, l]
            }
        }
        _ => unreachable!(),
    }
}
pub fn disc(labs: &[T]) -> Plain {
    Plain { n: labs.len(), alive: vec![tm::TRUE; labs.len()], lab: labs.to_vec(), s: vec![], t: vec![], edges: vec![] }
}
/// image of one operation x : a -> b (a, b already expanded label lists)
fn image(fam: u64, x: T, a: &[T], b: &[T]) -> Plain {
    let (na, nb) = (a.len(), b.len());
    let ids = |from: usize, n: usize| (from..from + n).map(ci).collect::<Vec<T>>();
    match fam {
        0 | 1 | 2 | 3 => {
            let mut labs = a.to_vec();
            labs.extend(b.iter().cloned());
            let mut p = disc(&labs);
            p.s = ids(0, na);
            p.t = ids(na, nb);
            p.edges = vec![PEdge { lab: x, src: ids(0, na), tgt: ids(na, nb) }];
            p
        }
        4 => {
            let mut labs = a.to_vec();
            labs.extend(b.iter().cloned());
            labs.extend(b.iter().cloned());
            let mut p = disc(&labs);
            p.s = ids(0, na);
            p.t = ids(na + nb, nb);
            p.edges = vec![PEdge { lab: x, src: ids(0, na), tgt: ids(na, nb) }, PEdge { lab: x, src: ids(na, nb), tgt: ids(na + nb, nb) }];
            p
        }
        5 => {
            let mut labs = a.to_vec();
            labs.extend(b.iter().cloned());
            let mut p = disc(&labs);
            p.s = ids(0, na);
            p.t = ids(na, nb);
            p
        }
        _ => unreachable!(),
    }
}

/// generator-wise substitution on the plain model
pub fn substitute(fam: u64, p: &Plain) -> Plain {
    substitute_with(p, &|l| obj(fam, l), &|e, a, b| {
        let fa: Vec<T> = a.iter().flat_map(|l| obj(fam, *l)).collect();
        let fb: Vec<T> = b.iter().flat_map(|l| obj(fam, *l)).collect();
        image(fam, e.lab, &fa, &fb)
    })
}

/// Substitution for an arbitrary functor given by its object map and, per hyperedge (with the labels
/// of its source and target nodes), the image diagram whose interfaces list the expanded source and
/// target nodes in order.
pub fn substitute_with(p: &Plain, obj: &dyn Fn(T) -> Vec<T>, image: &dyn Fn(&PEdge, &[T], &[T]) -> Plain) -> Plain {
    let p = &compact(p);
    // node blocks
    let blocks: Vec<Vec<T>> = p.lab.iter().map(|l| obj(*l)).collect();
    let sizes: Vec<usize> = blocks.iter().map(|b| b.len()).collect();
    let mut offs = vec![0usize];
    for s in &sizes {
        offs.push(offs.last().unwrap() + s);
    }
    let uniform = sizes.windows(2).all(|w| w[0] == w[1]);
    let expand = |v: T| -> Vec<T> {
        if p.n == 0 {
            return vec![];
        }
        if uniform {
            let m = sizes[0];
            let base = tm::mul(v, ci(m));
            (0..m).map(|j| tm::add(base, ci(j))).collect()
        } else {
            let c = concretize(v) as usize;
            (0..sizes[c]).map(|j| ci(offs[c] + j)).collect()
        }
    };
    let expand_list = |vs: &[T]| vs.iter().flat_map(|v| expand(*v)).collect::<Vec<T>>();
    let block_labs: Vec<T> = blocks.iter().flatten().cloned().collect();
    let mut acc = disc(&block_labs);
    let mut pairs: Vec<(T, T)> = vec![];
    for e in &p.edges {
        let (es, et) = (expand_list(&e.src), expand_list(&e.tgt));
        let img = image(e, &labels_of(p, &e.src), &labels_of(p, &e.tgt));
        assert_eq!(img.s.len(), es.len(), "ENGINE-ERROR: reference image has the wrong source arity");
        assert_eq!(img.t.len(), et.len(), "ENGINE-ERROR: reference image has the wrong target arity");
        let off = acc.n;
        for (k, r) in img.s.iter().enumerate() {
            pairs.push((tm::add(*r, ci(off)), es[k]));
        }
        for (k, r) in img.t.iter().enumerate() {
            pairs.push((tm::add(*r, ci(off)), et[k]));
        }
        let mut img2 = img.clone();
        img2.s = vec![];
        img2.t = vec![];
        acc = juxtapose(&acc, &img2);
    }
    acc.s = expand_list(&p.s);
    acc.t = expand_list(&p.t);
    glue(&acc, &pairs)
}

fn oracle_map(inp: &PV, out: &PV) -> T {
    if out.is_panic() {
        return tm::FALSE;
    }
    let fam = tm::as_const(inp.at(1).t()).unwrap();
    let p = plain_of(inp.at(0).oh());
    let r = match super::c01::plain_checked(out.at(0).oh()) {
        None => return tm::FALSE,
        Some(r) => r,
    };
    let want = substitute(fam, &p);
    // type F(A) -> F(B)
    let fa: Vec<T> = labels_of(&p, &p.s).iter().flat_map(|l| obj(fam, *l)).collect();
    let fb: Vec<T> = labels_of(&p, &p.t).iter().flat_map(|l| obj(fam, *l)).collect();
    tm::and(vec![iso(&want, &r), all_eq(&out.at(1).ts(), &fa), all_eq(&out.at(2).ts(), &fb)])
}

fn oracle_preserve(_inp: &PV, out: &PV) -> T {
    if out.is_panic() {
        return tm::FALSE;
    }
    let some = |o: &PV| PV::Some(Box::new(o.clone()));
    tm::and(vec![
        super::c03::iso_opts(out.at(0), out.at(1)),
        super::c03::iso_opts(&some(out.at(2)), &some(out.at(3))),
        super::c03::iso_opts(&some(out.at(4)), &some(out.at(5))),
        super::c03::iso_opts(&some(out.at(6)), &some(out.at(7))),
        super::c03::iso_opts(&some(out.at(8)), &some(out.at(9))),
    ])
}

pub fn jobs(tier: Tier, seed: u64) -> Vec<Job> {
    let per_job = Duration::from_secs(match tier {
        Tier::Quick => 60,
        Tier::Thorough => 600,
    });
    let cfg = base_cfg(tier);
    let bx = match tier {
        Tier::Quick => shapes(2, 1, 2, 2, 2, 2),
        Tier::Thorough => shapes(3, 2, 3, 3, 2, 2),
    };
    let mut all: Vec<(usize, Case)> = vec![];
    for sh in bx {
        for (fam, name) in FAMILIES {
            let gen = move || PV::List(vec![PV::OH(gen_oh(&sh, "f")), PV::T(tm::c(fam, 8))]);
            let cost = sh.w * (if fam == 1 || fam == 4 { 2 } else { 1 }) + sh.x * 2 + sh.s + sh.t + sh.a + sh.b;
            all.push((cost, crate::case!(format!("map_arrow[{}] {}", name, sh.show()), gen, c12_map, oracle_map, 3)));
        }
    }
    let pb = match tier {
        Tier::Quick => shapes(2, 1, 1, 1, 1, 1),
        Tier::Thorough => shapes(2, 1, 2, 2, 2, 2),
    };
    for f in &pb {
        for g in &pb {
            if f.b != g.a || f.w + g.w > 3 {
                continue;
            }
            for (fam, name) in [(0u64, "identity"), (1u64, "doubling")] {
                let (f, g) = (*f, *g);
                let gen = move || {
                    let (rf, rg) = (gen_oh(&f, "f"), gen_oh(&g, "g"));
                    super::c03::composable(&rf, &rg);
                    PV::List(vec![PV::OH(rf), PV::OH(rg), PV::T(tm::c(fam, 8))])
                };
                let cost = 6 + (f.w + g.w) * (fam as usize + 1) + f.x + g.x;
                all.push((cost, crate::case!(format!("preserves ; (x) dagger id twist [{}] {} {}", name, f.show(), g.show()), gen, c12_preserve, oracle_preserve, 5)));
            }
        }
    }
    let mut rng = Rng::new(seed);
    let mut keyed: Vec<(usize, u64, Case)> = all.into_iter().map(|(c, k)| (c, rng.next(), k)).collect();
    keyed.sort_by_key(|(c, r, _)| (*c, *r));
    let mut strict: Vec<Job> = keyed.into_iter().map(|(c, _, k)| case_job(k, cfg.clone(), per_job, c <= 6 && tier == Tier::Quick)).collect();
    // lax half: the lax Functor trait through dyn_functor (lax tier: wirings enumerated, labels symbolic)
    let mut lax = lax_jobs(tier);
    // the native lax path (try_define_map_arrow / map_arrow_witness) is functor application too: a subset of
    // the C13 jobs, whose oracle compares with the same generator-wise substitution
    let mut native: Vec<Job> = super::c13::jobs(tier, seed).into_iter().filter(|j| !j.name.contains(" ids[")).take(240).map(|mut j| { j.mandatory = false; j }).collect();
    strict.reverse();
    lax.reverse();
    native.reverse();
    let mut out = vec![];
    while !strict.is_empty() || !lax.is_empty() {
        for _ in 0..3 {
            if let Some(j) = strict.pop() {
                out.push(j);
            }
        }
        if let Some(j) = lax.pop() {
            out.push(j);
        }
        if let Some(j) = native.pop() {
            out.push(j);
        }
    }
    out.extend(native.into_iter().rev());
    out
}

fn oracle_lax(inp: &PV, out: &PV) -> T {
    if out.is_panic() {
        return tm::FALSE;
    }
    let f = inp.at(0).lax();
    let fam = tm::as_const(inp.at(1).t()).unwrap();
    let r = out.at(0).lax();
    let want = substitute(super::c13::sem(fam), &strict_of_lax(f));
    tm::and(vec![tm::bconst(r.quot.is_empty()), iso(&want, &plain_of_lax(r)), raw_lax_eq(out.at(1).lax(), r)])
}
pub fn lax_jobs(tier: Tier) -> Vec<Job> {
    let per_job = Duration::from_secs(if tier == Tier::Quick { 90 } else { 600 });
    let cfg = base_cfg(tier);
    let mut out = vec![];
    for sh in super::c13::shapes_for(tier) {
        for fam in [0u64, 1, 2, 3, 4, 5, 6] {
            if fam == 3 && sh.refs() > 4 {
                continue;
            }
            let sh2 = sh.clone();
            let gen = move || {
                let f = gen_lax(&sh2, "f");
                crate::explore::assume(super::lax::consistent(&f));
                PV::List(vec![PV::Lax(f), PV::T(tm::c(fam, 8))])
            };
            let j = case_job(crate::case!(format!("lax map_arrow via dyn_functor fam={} {}", fam, sh.show()), gen, c12_lax_map, oracle_lax, 2), cfg.clone(), per_job, tier == Tier::Quick && sh.refs() <= 4);
            out.extend(split_by_choices(j, sh.n, if sh.refs() >= 6 { 1 } else { 0 }));
        }
    }
    out
}
