//! C15 — layering respects dependencies, is as shallow as possible, and flags cycles.
use super::*;
use crate::plain::*;
use crate::runner::*;
use crate::term::{self as tm, T};
use std::time::Duration;

pub fn def() -> CheckDef {
    CheckDef {
        id: "C15",
        functions: &[
            "strict::layer::{layer,layered_operations}",
            "strict::graph::{operation_adjacency,converse,converse_iter,kahn,indegree,dense_relative_indegree,sparse_relative_indegree,filter,zero}",
            "IndexedCoproduct::{flatmap,indexed_values,elements,into_iter}, FiniteFunction::injections",
        ],
        bounds_quick: "X<=2 hyperedges, W<=3 nodes, S,T<=3 incidences (multiplicity 3 included), empty interfaces (layering ignores them; one shape with interfaces as control)",
        bounds_thorough: "X<=3, W<=4, S,T<=4",
        jobs,
        budget_s: (170, 1500),
    }
}

pub struct DepModel {
    pub dep: Vec<Vec<T>>,
    pub cyc: Vec<T>,
    pub depth: Vec<T>,
}

/// dependency relation, cycle membership ("on or downstream of a cycle") and longest-chain depth
pub fn dep_model(p: &Plain) -> DepModel {
    let x = p.edges.len();
    let iw = crate::explore::iw();
    let dep: Vec<Vec<T>> = (0..x)
        .map(|i| {
            (0..x)
                .map(|j| {
                    let mut alts = vec![];
                    for t in &p.edges[i].tgt {
                        for s in &p.edges[j].src {
                            alts.push(tm::eq(*t, *s));
                        }
                    }
                    tm::or(alts)
                })
                .collect()
        })
        .collect();
    let reach = closure_sq(x, |i, j| dep[i][j], false);
    let cyc: Vec<T> = (0..x).map(|y| tm::or((0..x).map(|z| if z == y { reach[z][z] } else { tm::and2(reach[z][z], reach[z][y]) }).collect())).collect();
    // longest chain ending at y among non-cyclic operations (x rounds of relaxation)
    let mut depth: Vec<T> = vec![tm::c(0, iw); x];
    for _ in 0..x {
        let mut nd = vec![];
        for y in 0..x {
            let mut d = tm::c(0, iw);
            for z in 0..x {
                let cand = tm::add(depth[z], tm::c(1, iw));
                let c = tm::and(vec![dep[z][y], tm::not(cyc[z]), tm::ult(d, cand)]);
                d = tm::ite(c, cand, d);
            }
            nd.push(d);
        }
        depth = nd;
    }
    DepModel { dep, cyc, depth }
}

/// the layering obligations on (order, unvisited)
pub fn layer_goal(p: &Plain, o: &[T], u: &[T]) -> T {
    let x = p.edges.len();
    if o.len() != x || u.len() != x {
        return tm::FALSE;
    }
    let iw = crate::explore::iw();
    let m = dep_model(p);
    let mut goal = vec![];
    for y in 0..x {
        goal.push(tm::iff(tm::eq(u[y], tm::c(1, iw)), m.cyc[y]));
        goal.push(tm::or2(tm::eq(u[y], tm::c(0, iw)), tm::eq(u[y], tm::c(1, iw))));
        for z in 0..x {
            goal.push(tm::implies(tm::and(vec![m.dep[z][y], tm::not(m.cyc[z]), tm::not(m.cyc[y])]), tm::ult(o[z], o[y])));
        }
    }
    let vis: Vec<T> = (0..x).map(|y| tm::not(m.cyc[y])).collect();
    // as shallow as possible: least layer 0 and 1 + max layer = longest dependency chain among visited operations
    for y in 0..x {
        goal.push(tm::implies(vis[y], tm::or((0..x).map(|z| tm::and2(vis[z], tm::uge(m.depth[z], o[y]))).collect())));
        goal.push(tm::implies(vis[y], tm::or((0..x).map(|z| tm::and2(vis[z], tm::uge(o[z], m.depth[y]))).collect())));
    }
    goal.push(tm::implies(tm::or(vis.clone()), tm::or((0..x).map(|z| tm::and2(vis[z], tm::eq(o[z], tm::c(0, iw)))).collect())));
    tm::and(goal)
}

fn oracle_layer(inp: &PV, out: &PV) -> T {
    if out.is_panic() {
        return tm::FALSE;
    }
    let p = plain_of(inp.at(0).oh());
    let order = out.at(0).ff();
    let unv = out.at(1).ts();
    tm::and(vec![
        layer_goal(&p, &order.table, &unv),
        // the returned layering is a finite function into 0..X
        tm::eq(order.target, ci(p.edges.len())),
        tm::and(order.table.iter().map(|v| tm::ult(*v, order.target)).collect()),
    ])
}

fn oracle_layered(inp: &PV, out: &PV) -> T {
    if out.is_panic() {
        return tm::FALSE;
    }
    let p = plain_of(inp.at(0).oh());
    let x = p.edges.len();
    let iw = crate::explore::iw();
    let groups: Vec<Vec<T>> = out.at(0).list().iter().map(|g| g.ts()).collect();
    let unv = out.at(1).ts();
    let order = out.at(2).ff().table.clone();
    if unv.len() != x || order.len() != x {
        return tm::FALSE;
    }
    let m = dep_model(&p);
    let mut goal = vec![];
    for y in 0..x {
        goal.push(tm::iff(tm::eq(unv[y], tm::c(1, iw)), m.cyc[y]));
        // every visited operation occurs exactly once overall, in the group of its layer
        let mut occs = vec![];
        for (gi, g) in groups.iter().enumerate() {
            for e in g {
                let here = tm::eq(*e, ci(y));
                occs.push(here);
                goal.push(tm::implies(tm::and2(here, tm::not(m.cyc[y])), tm::eq(order[y], ci(gi))));
            }
        }
        goal.push(tm::implies(tm::not(m.cyc[y]), tm::eq(tm::count(&occs, iw), tm::c(1, iw))));
    }
    tm::and(goal)
}

/// open hypergraph with a fixed arity profile (sources, targets per hyperedge) and free wiring
pub fn gen_profile(profile: &[(usize, usize)], w: usize, name: &str) -> RawOH {
    let s_total: usize = profile.iter().map(|p| p.0).sum();
    let t_total: usize = profile.iter().map(|p| p.1).sum();
    RawOH {
        s: RawFF { table: vec![], target: ci(w) },
        t: RawFF { table: vec![], target: ci(w) },
        h: RawH {
            s: RawIC { sizes: profile.iter().map(|p| ci(p.0)).collect(), sizes_target: ci(s_total + 1), vals: gen_idx(s_total, w, &format!("{}s", name)), vals_target: ci(w) },
            t: RawIC { sizes: profile.iter().map(|p| ci(p.1)).collect(), sizes_target: ci(t_total + 1), vals: gen_idx(t_total, w, &format!("{}t", name)), vals_target: ci(w) },
            w: gen_labels(w, &format!("{}w", name)),
            x: gen_labels(profile.len(), &format!("{}x", name)),
        },
    }
}
pub fn profile_cases(profile: Vec<(usize, usize)>, w: usize) -> Vec<Case> {
    let p1 = profile.clone();
    let p2 = profile.clone();
    vec![
        crate::case!(format!("layer profile={:?} W={}", profile, w), move || PV::List(vec![PV::OH(gen_profile(&p1, w, "f"))]), c15_layer, oracle_layer, 5),
        crate::case!(format!("layered_operations profile={:?} W={}", profile, w), move || PV::List(vec![PV::OH(gen_profile(&p2, w, "f"))]), c15_layered, oracle_layered, 3),
    ]
}

pub fn cases(sh: Shape) -> Vec<Case> {
    vec![
        crate::case!(format!("layer {}", sh.show()), move || PV::List(vec![PV::OH(gen_oh(&sh, "f"))]), c15_layer, oracle_layer, 5),
        crate::case!(format!("layered_operations {}", sh.show()), move || PV::List(vec![PV::OH(gen_oh(&sh, "f"))]), c15_layered, oracle_layered, 3),
    ]
}

pub fn jobs(tier: Tier, seed: u64) -> Vec<Job> {
    let per_job = Duration::from_secs(match tier {
        Tier::Quick => 90,
        Tier::Thorough => 600,
    });
    let (wm, xm, im) = match tier {
        Tier::Quick => (3, 2, 3),
        Tier::Thorough => (4, 3, 4),
    };
    let mut all = shapes(wm, xm, im, im, 0, 0);
    all.push(Shape::new(2, 2, 2, 2, 1, 1));
    let (mut must, mut rest): (Vec<Shape>, Vec<Shape>) = all.drain(..).partition(|s| s.w <= 3 && s.x <= 2 && s.s <= 3 && s.t <= 3);
    Rng::new(seed).shuffle(&mut rest);
    // hardest shapes last so that cheap ones finish inside the budget
    must.sort_by_key(|s| (s.x, s.s + s.t, s.w));
    let n_must = must.len();
    must.extend(rest);
    let mut out = super::c07::conformance_jobs(tier, &[0, 1, 2, 4]);
    // three operations with fixed arities and free wiring (operations whose producers sit in different layers)
    // (a producer of two wires, a relay, a consumer of two) and (a producer of two, a consumer of two that
    // produces one, a consumer): operations fed by parallel wires that have dependents themselves
    for base in [vec![(0usize, 2usize), (1, 1), (2, 0)], vec![(0, 2), (2, 1), (1, 0)]] {
        for perm in crate::plain::perms(3) {
            let profile: Vec<(usize, usize)> = perm.iter().map(|i| base[*i]).collect();
            for c in profile_cases(profile, 3) {
                out.push(case_job(c, base_cfg(tier), per_job, tier == Tier::Quick));
            }
        }
    }
    for (i, sh) in must.into_iter().enumerate() {
        for c in cases(sh) {
            out.push(case_job(c, base_cfg(tier), per_job, i < n_must && tier == Tier::Quick));
        }
    }
    out
}
