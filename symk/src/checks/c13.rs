//! C13 — native lax functor path agrees with the strict path; the witness is correct (lax tier).
use super::c09::class_reps;
use super::c12::{obj, substitute};
use super::*;
use crate::plain::*;
use crate::runner::*;
use crate::term::{self as tm, T};
use std::time::Duration;

pub fn def() -> CheckDef {
    CheckDef {
        id: "C13",
        functions: &["lax::functor::{try_define_map_arrow,map_arrow_witness,spider_map_arrow,map_half_spider,map_operations,map_objects}", "lax::OpenHypergraph::{lax_compose,tensor,tensor_assign,spider,identity,quotient}", "FiniteFunction::<VecKind>::injections", "lax::functor::dyn_functor::define_map_arrow (the path through the strict representation)"],
        bounds_quick: "lax diagrams with <=3 nodes, <=2 hyperedges of arity <=2, interfaces <=2 (<=6 node references), without pending pairs (image) and with 1 pending pair (refusal); functor families: doubling, erasing, label-dependent lengths 0/1/2, composite image carrying pending unifications (built by lax composition and imperatively), spider-only image; all wirings enumerated, labels symbolic",
        bounds_thorough: "<=4 nodes, <=8 node references",
        jobs,
        budget_s: (110, 1500),
    }
}

/// lax harness family -> the substitution semantics it implements
pub fn sem(fam: u64) -> u64 {
    match fam {
        6 => 4,
        f => f,
    }
}

fn oracle(inp: &PV, out: &PV) -> T {
    if out.is_panic() {
        return tm::FALSE;
    }
    let f = inp.at(0).lax();
    let fam = tm::as_const(inp.at(1).t()).unwrap();
    if !f.quot.is_empty() {
        // refusal: absence is reported for diagrams that still have pending unifications
        return tm::bconst(out.at(0).some().is_none() && out.at(1).some().is_none());
    }
    let p = plain_of_lax(f);
    let want = substitute(sem(fam), &p);
    let native = match out.at(0).some() {
        None => return tm::FALSE,
        Some(r) => r.lax(),
    };
    let via = match out.at(2).some() {
        None => return tm::FALSE,
        Some(r) => r.lax(),
    };
    let mut cs = vec![iso(&want, &strict_of_lax(native)), iso(&strict_of_lax(native), &plain_of_lax(via))];
    // witness
    let w = match out.at(1).some() {
        None => return tm::FALSE,
        Some(w) => w,
    };
    let r = w.at(0).lax();
    let sizes: Vec<usize> = w.at(1).ts().iter().map(|t| RawLax::id(*t)).collect();
    let values: Vec<usize> = w.at(2).ts().iter().map(|t| RawLax::id(*t)).collect();
    let target = RawLax::id(w.at(3).t());
    cs.push(raw_lax_eq(r, native));
    let n = f.nodes.len();
    let images: Vec<Vec<T>> = f.nodes.iter().map(|l| obj(sem(fam), *l)).collect();
    let mut ok = sizes.len() == n && target == r.nodes.len() && values.iter().all(|v| *v < r.nodes.len()) && sizes.iter().sum::<usize>() == values.len();
    ok &= (0..n.min(sizes.len())).all(|i| sizes[i] == images[i].len());
    if !ok {
        return tm::FALSE;
    }
    // input node i is related to exactly |F(label i)| output nodes, in order, carrying the labels of F(label i)
    let mut offs = vec![0usize];
    for s in &sizes {
        offs.push(offs.last().unwrap() + s);
    }
    for i in 0..n {
        for j in 0..sizes[i] {
            cs.push(tm::eq(r.nodes[values[offs[i] + j]], images[i][j]));
        }
    }
    // pushing the input interfaces through the witness and the quotient map gives the output interfaces
    let rep = class_reps(r.nodes.len(), &r.quot);
    let push = |refs: &[T]| refs.iter().flat_map(|t| { let i = RawLax::id(*t); (0..sizes[i]).map(|j| rep[values[offs[i] + j]]).collect::<Vec<usize>>() }).collect::<Vec<usize>>();
    let through = |refs: &[T]| refs.iter().map(|t| rep[RawLax::id(*t)]).collect::<Vec<usize>>();
    cs.push(tm::bconst(push(&f.s) == through(&r.s) && push(&f.t) == through(&r.t)));
    tm::and(cs)
}

pub fn shapes_for(tier: Tier) -> Vec<LaxShape> {
    let mut v = vec![];
    let nmax = if tier == Tier::Quick { 3 } else { 4 };
    let ars: Vec<Vec<(usize, usize)>> = vec![vec![], vec![(1, 1)], vec![(2, 1)], vec![(0, 0)], vec![(1, 2)], vec![(0, 1), (1, 0)], vec![(1, 1), (1, 1)], vec![(2, 0), (0, 1)]];
    for n in 0..=nmax {
        for ar in &ars {
            for q in 0..=1usize {
                for (a, b) in [(0usize, 0usize), (1, 1), (2, 1), (1, 2)] {
                    let sh = LaxShape::new(n, ar, q, a, b);
                    if sh.inhabited() && sh.refs() <= (if tier == Tier::Quick { 6 } else { 8 }) {
                        v.push(sh);
                    }
                }
            }
        }
    }
    v.sort_by_key(|s| (s.refs(), s.n));
    v
}

pub fn jobs(tier: Tier, _seed: u64) -> Vec<Job> {
    let per_job = Duration::from_secs(if tier == Tier::Quick { 90 } else { 600 });
    let cfg = base_cfg(tier);
    let mut out = vec![];
    for sh in shapes_for(tier) {
        for fam in [1u64, 2, 3, 4, 5, 6] {
            if sh.q > 0 && fam > 2 {
                continue;
            }
            if fam == 3 && sh.refs() > 4 {
                continue;
            }
            let sh2 = sh.clone();
            let gen = move || PV::List(vec![PV::Lax(gen_lax(&sh2, "f")), PV::T(tm::c(fam, 8))]);
            let j = case_job(crate::case!(format!("native functor path fam={} {}", fam, sh.show()), gen, c13_native, oracle, 8), cfg.clone(), per_job, tier == Tier::Quick && sh.refs() <= 4);
            out.extend(split_by_choices(j, sh.n, if sh.refs() >= 6 { 1 } else { 0 }));
        }
    }
    out
}
