//! Per-property checks (Engine S). Each module exposes `jobs(tier, seed)` and metadata.
use crate::explore::Cfg;
use crate::plain::Shape;
use crate::runner::Job;

pub mod c01;
pub mod c02;
pub mod c03;
pub mod c04;
pub mod c05;
pub mod c06;
pub mod c07;
pub mod c08;
pub mod c09;
pub mod c11;
pub mod c12;
pub mod c13;
pub mod c14;
pub mod c15;
pub mod c16;
pub mod c18;
pub mod c19;
pub mod c20;
pub mod lax;
pub mod c17;

#[derive(Clone, Copy, PartialEq, Eq, Debug)]
pub enum Tier {
    Quick,
    Thorough,
}

pub struct CheckDef {
    pub id: &'static str,
    pub functions: &'static [&'static str],
    pub bounds_quick: &'static str,
    pub bounds_thorough: &'static str,
    pub jobs: fn(Tier, u64) -> Vec<Job>,
    /// wall-clock budget in seconds for the whole check (quick, thorough)
    pub budget_s: (u64, u64),
}

pub fn registry() -> Vec<CheckDef> {
    vec![c01::def(), c02::def(), c03::def(), c04::def(), c05::def(), c06::def(), c07::def(), c08::def(), c09::def(), lax::def_c10(), c11::def(), c12::def(), c13::def(), c14::def(), c15::def(), c16::def(), c18::def(), c19::def(), c20::def(), c17::def()]
}

/// deterministic xorshift generator for seeded sampling
pub struct Rng(pub u64);
impl Rng {
    pub fn new(seed: u64) -> Self {
        Rng(seed.wrapping_mul(0x9E3779B97F4A7C15) ^ 0xD1B54A32D192ED03)
    }
    pub fn next(&mut self) -> u64 {
        let mut x = self.0;
        x ^= x << 13;
        x ^= x >> 7;
        x ^= x << 17;
        self.0 = x;
        x
    }
    pub fn shuffle<X>(&mut self, v: &mut Vec<X>) {
        for i in (1..v.len()).rev() {
            let j = (self.next() % (i as u64 + 1)) as usize;
            v.swap(i, j);
        }
    }
}

/// all inhabited open-hypergraph shapes inside a box
pub fn shapes(wmax: usize, xmax: usize, smax: usize, tmax: usize, amax: usize, bmax: usize) -> Vec<Shape> {
    let mut out = vec![];
    for w in 0..=wmax {
        for x in 0..=xmax {
            for s in 0..=smax {
                for t in 0..=tmax {
                    for a in 0..=amax {
                        for b in 0..=bmax {
                            let sh = Shape::new(w, x, s, t, a, b);
                            if sh.inhabited() {
                                out.push(sh);
                            }
                        }
                    }
                }
            }
        }
    }
    out
}

pub fn base_cfg(tier: Tier) -> Cfg {
    let mut c = Cfg::default();
    c.query_timeout_ms = match tier {
        Tier::Quick => 20_000,
        Tier::Thorough => 120_000,
    };
    c
}
