//! C14 (strict core: typing, functoriality, adaptation) — the optic transformation.
use super::c12::{disc, obj, substitute_with};
use super::*;
use crate::plain::*;
use crate::runner::*;
use crate::term::{self as tm, T};
use std::time::Duration;

pub fn def() -> CheckDef {
    CheckDef {
        id: "C14",
        functions: &["strict::functor::optic::Optic::{new,map_object,map_operations,map_arrow,adapt}", "interleave_blocks, partial_dagger", "strict::functor::{define_map_arrow,spider_map_arrow,map_half_spider}", "FiniteFunction::{transpose,injections,inj0,inj1}", "IndexedCoproduct::{flatmap_sources,coproduct,indexed_values,new}", "strict::OpenHypergraph::{compose,tensor,identity,spider,dagger,new,is_monogamous}", "lax::optic::{Optic::{map_arrow,map_adapted},to_strict_optic,Fwd,Rev}", "lax::functor::dyn_functor::DynFunctor"],
        bounds_quick: "lax entry points: lax diagrams with <=3 nodes, <=2 hyperedges (<=5 node references; wirings enumerated, labels symbolic), four lens-shaped optics whose generator images carry pending unifications; strict core: diagrams W<=2, X<=1, S,T<=2, interfaces<=2; lens-shaped optics with forward object map in {A->[A], A->[A,A]}, reverse object map in {A->[A], A->[], A->[A,A]}, residual of 0, 1 or 2 objects per operation; functoriality on pairs W<=1, X<=1",
        bounds_thorough: "W<=3, X<=2; pairs W<=2",
        jobs,
        budget_s: (170, 3000),
    }
}

fn params(inp: &PV, i: usize) -> (u64, u64, usize) {
    let k = |j: usize| tm::as_const(inp.at(i + j).t()).unwrap();
    (k(0), k(1), k(2) as usize)
}

/// reference image of the optic on one operation x : a -> b:
/// nodes F(a) R(a) F(b) R(b) m; operations fwd_x : F(a) -> F(b) ● m and rev_x : m ● R(b) -> R(a);
/// interfaces: per source node its F block then its R block, likewise for targets.
fn optic_image(ff: u64, rf: u64, r: usize, e: &PEdge, a: &[T], b: &[T]) -> Plain {
    let mut labs: Vec<T> = vec![];
    let mut alloc = |ls: Vec<T>| -> Vec<T> {
        let start = labs.len();
        labs.extend(ls.iter().cloned());
        (start..start + ls.len()).map(ci).collect()
    };
    let fa: Vec<Vec<T>> = a.iter().map(|l| alloc(obj(ff, *l))).collect();
    let ra: Vec<Vec<T>> = a.iter().map(|l| alloc(obj(rf, *l))).collect();
    let fb: Vec<Vec<T>> = b.iter().map(|l| alloc(obj(ff, *l))).collect();
    let rb: Vec<Vec<T>> = b.iter().map(|l| alloc(obj(rf, *l))).collect();
    let m: Vec<T> = alloc(vec![e.lab; r]);
    let flat = |v: &Vec<Vec<T>>| v.iter().flatten().cloned().collect::<Vec<T>>();
    let mut p = disc(&labs);
    let mut fwd_t = flat(&fb);
    fwd_t.extend(m.iter().cloned());
    let mut rev_s = m.clone();
    rev_s.extend(flat(&rb));
    p.edges = vec![PEdge { lab: e.lab, src: flat(&fa), tgt: fwd_t }, PEdge { lab: e.lab, src: rev_s, tgt: flat(&ra) }];
    p.s = fa.iter().zip(ra.iter()).flat_map(|(x, y)| x.iter().chain(y.iter()).cloned().collect::<Vec<T>>()).collect();
    p.t = fb.iter().zip(rb.iter()).flat_map(|(x, y)| x.iter().chain(y.iter()).cloned().collect::<Vec<T>>()).collect();
    p
}
pub fn optic_reference(ff: u64, rf: u64, r: usize, p: &Plain) -> Plain {
    substitute_with(
        p,
        &|l| {
            let mut v = obj(ff, l);
            v.extend(obj(rf, l));
            v
        },
        &|e, a, b| optic_image(ff, rf, r, e, a, b),
    )
}
/// split an interleaved interface (per object: F block, R block) into its F part and its R part
pub fn split(ff: u64, rf: u64, labs: &[T], refs: &[T]) -> (Vec<T>, Vec<T>) {
    let (mut f, mut r) = (vec![], vec![]);
    let mut p = 0;
    for l in labs {
        let (nf, nr) = (obj(ff, *l).len(), obj(rf, *l).len());
        f.extend(refs[p..p + nf].iter().cloned());
        p += nf;
        r.extend(refs[p..p + nr].iter().cloned());
        p += nr;
    }
    (f, r)
}

fn oracle_map(inp: &PV, out: &PV) -> T {
    if out.is_panic() {
        return tm::FALSE;
    }
    let (ff, rf, r) = params(inp, 1);
    let p = plain_of(inp.at(0).oh());
    let (a, b) = (labels_of(&p, &p.s), labels_of(&p, &p.t));
    let inter = |ls: &[T]| ls.iter().flat_map(|l| obj(ff, *l).into_iter().chain(obj(rf, *l))).collect::<Vec<T>>();
    let cat = |x: Vec<T>, y: Vec<T>| x.into_iter().chain(y).collect::<Vec<T>>();
    let fl = |fam: u64, ls: &[T]| ls.iter().flat_map(|l| obj(fam, *l)).collect::<Vec<T>>();
    let c = match super::c01::plain_checked(out.at(0).oh()) {
        None => return tm::FALSE,
        Some(c) => c,
    };
    let d = match super::c01::plain_checked(out.at(3).oh()) {
        None => return tm::FALSE,
        Some(d) => d,
    };
    let want = optic_reference(ff, rf, r, &p);
    // adapted form: same diagram, interfaces FA ● RB -> FB ● RA
    let (cs_f, cs_r) = split(ff, rf, &a, &c.s);
    let (ct_f, ct_r) = split(ff, rf, &b, &c.t);
    let mut adapted = c.clone();
    adapted.s = cat(cs_f, ct_r);
    adapted.t = cat(ct_f, cs_r);
    // monogamy of the adapted form whenever f is monogamous (the generator images here are single operations)
    let mono_in = super::c17::monogamous_formula(&p);
    let mono_out = super::c17::monogamous_formula(&d);
    tm::and(vec![
        iso(&want, &c),
        all_eq(&out.at(1).ts(), &inter(&a)),
        all_eq(&out.at(2).ts(), &inter(&b)),
        iso(&adapted, &d),
        all_eq(&out.at(4).ts(), &cat(fl(ff, &a), fl(rf, &b))),
        all_eq(&out.at(5).ts(), &cat(fl(ff, &b), fl(rf, &a))),
        tm::implies(mono_in, mono_out),
        tm::iff(out.at(6).t(), mono_out),
    ])
}
fn oracle_functorial(_inp: &PV, out: &PV) -> T {
    if out.is_panic() {
        return tm::FALSE;
    }
    let some = |o: &PV| PV::Some(Box::new(o.clone()));
    tm::and(vec![super::c03::iso_opts(out.at(0), out.at(1)), super::c03::iso_opts(&some(out.at(2)), &some(out.at(3)))])
}

pub fn jobs(tier: Tier, seed: u64) -> Vec<Job> {
    let per_job = Duration::from_secs(match tier {
        Tier::Quick => 60,
        Tier::Thorough => 1200,
    });
    let cfg = base_cfg(tier);
    let bx = match tier {
        Tier::Quick => shapes(2, 1, 2, 2, 2, 2),
        Tier::Thorough => shapes(3, 2, 3, 3, 2, 2),
    };
    let optics: Vec<(u64, u64, usize)> = vec![(0, 0, 0), (0, 0, 1), (0, 2, 0), (1, 0, 1), (0, 1, 2), (1, 2, 2), (0, 0, 2), (1, 1, 0)];
    let c8 = |v: u64| PV::T(tm::c(v, 8));
    let mut all: Vec<(usize, Case)> = vec![];
    for sh in bx {
        for (ff, rf, r) in optics.iter().cloned() {
            let gen = move || PV::List(vec![PV::OH(gen_oh(&sh, "f")), c8(ff), c8(rf), c8(r as u64)]);
            let cost = sh.w * (2 + ff as usize + (rf % 2) as usize) + sh.x * (3 + r) + sh.s + sh.t + sh.a + sh.b;
            all.push((cost, crate::case!(format!("optic fwd={} rev={} residual={} on {}", ff, rf, r, sh.show()), gen, c14_map, oracle_map, 8)));
        }
    }
    let pb = match tier {
        Tier::Quick => shapes(1, 1, 1, 1, 1, 1),
        Tier::Thorough => shapes(2, 1, 2, 2, 1, 1),
    };
    for f in &pb {
        for g in &pb {
            if f.b != g.a {
                continue;
            }
            for (ff, rf, r) in [(0u64, 0u64, 0usize), (0, 0, 1), (1, 2, 1)] {
                let (f, g) = (*f, *g);
                let gen = move || {
                    let (rf_, rg) = (gen_oh(&f, "f"), gen_oh(&g, "g"));
                    super::c03::composable(&rf_, &rg);
                    PV::List(vec![PV::OH(rf_), PV::OH(rg), c8(ff), c8(rf), c8(r as u64)])
                };
                let cost = 8 + (f.w + g.w) * 2 + (f.x + g.x) * (3 + r);
                all.push((cost, crate::case!(format!("optic functorial fwd={} rev={} residual={} {} {}", ff, rf, r, f.show(), g.show()), gen, c14_functorial, oracle_functorial, 2)));
            }
        }
    }
    let mut rng = Rng::new(seed);
    let mut keyed: Vec<(usize, u64, Case)> = all.into_iter().map(|(c, k)| (c, rng.next(), k)).collect();
    keyed.sort_by_key(|(c, r, _)| (*c, *r));
    let mut strict: Vec<Job> = keyed.into_iter().map(|(c, _, k)| case_job(k, cfg.clone(), per_job, c <= 8 && tier == Tier::Quick)).collect();
    let mut lax = lax_jobs(tier);
    strict.reverse();
    lax.reverse();
    let mut out = vec![];
    while !strict.is_empty() || !lax.is_empty() {
        for _ in 0..3 {
            if let Some(j) = strict.pop() {
                out.push(j);
            }
        }
        if let Some(j) = lax.pop() {
            out.push(j);
        }
    }
    out
}

fn oracle_lax(inp: &PV, out: &PV) -> T {
    if out.is_panic() {
        return tm::FALSE;
    }
    let (ff, rf, r) = params(inp, 1);
    let p = compact(&strict_of_lax(inp.at(0).lax()));
    let (a, b) = (labels_of(&p, &p.s), labels_of(&p, &p.t));
    let c = plain_of_lax(out.at(0).lax());
    let d = plain_of_lax(out.at(1).lax());
    let want = optic_reference(ff, rf, r, &p);
    // adapted form of the reference: interfaces FA ● RB -> FB ● RA
    let (cs_f, cs_r) = split(ff, rf, &a, &want.s);
    let (ct_f, ct_r) = split(ff, rf, &b, &want.t);
    let mut adapted = want.clone();
    adapted.s = cs_f.into_iter().chain(ct_r).collect();
    adapted.t = ct_f.into_iter().chain(cs_r).collect();
    tm::and(vec![iso(&want, &c), iso(&adapted, &d)])
}
pub fn lax_jobs(tier: Tier) -> Vec<Job> {
    let per_job = Duration::from_secs(if tier == Tier::Quick { 90 } else { 1200 });
    let cfg = base_cfg(tier);
    let c8 = |v: u64| PV::T(tm::c(v, 8));
    let mut out = vec![];
    for sh in super::c13::shapes_for(tier) {
        if sh.refs() > 5 {
            continue;
        }
        for (ff, rf, r) in [(0u64, 0u64, 0usize), (0, 0, 1), (1, 2, 1), (0, 1, 2)] {
            let sh2 = sh.clone();
            let gen = move || {
                let f = gen_lax(&sh2, "f");
                crate::explore::assume(super::lax::consistent(&f));
                PV::List(vec![PV::Lax(f), c8(ff), c8(rf), c8(r as u64)])
            };
            out.push(case_job(crate::case!(format!("lax optic map_arrow/map_adapted fwd={} rev={} residual={} {}", ff, rf, r, sh.show()), gen, c14_lax, oracle_lax, 2), cfg.clone(), per_job, tier == Tier::Quick && sh.refs() <= 3));
        }
    }
    out
}
