//! C14 (strict core: typing, functoriality, adaptation) — the optic transformation.
use super::c12::{disc, obj, substitute_with};
use super::*;
use crate::plain::*;
use crate::runner::*;
use crate::term::{self as tm, T};
use std::time::Duration;

pub fn def() -> CheckDef {
    CheckDef {
        id: "C14",
        functions: &["strict::functor::optic::Optic::{new,map_object,map_operations,map_arrow,adapt}", "interleave_blocks, partial_dagger", "strict::functor::{define_map_arrow,spider_map_arrow,map_half_spider}", "FiniteFunction::{transpose,injections,inj0,inj1}", "IndexedCoproduct::{flatmap_sources,coproduct,indexed_values,new}", "strict::OpenHypergraph::{compose,tensor,identity,spider,dagger,new,is_monogamous}", "lax::optic::{Optic::{map_arrow,map_adapted},to_strict_optic,Fwd,Rev}", "lax::functor::dyn_functor::DynFunctor"],
        bounds_quick: "lax entry points: lax diagrams with <=3 nodes, <=2 hyperedges (<=5 node references; wirings enumerated, labels symbolic), four lens-shaped optics whose generator images carry pending unifications; strict core: diagrams W<=2, X<=1, S,T<=2, interfaces<=2; lens-shaped optics with forward object map in {A->[A], A->[A,A]}, reverse object map in {A->[A], A->[], A->[A,A]}, residual of 0, 1 or 2 objects per operation; functoriality on pairs W<=1, X<=1",
        bounds_thorough: "W<=3, X<=2; pairs W<=2",
        jobs,
        budget_s: (170, 1500),
    }
}

fn params(inp: &PV, i: usize) -> (u64, u64, usize) {
    let k = |j: usize| tm::as_const(inp.at(i + j).t()).unwrap();
    (k(0), k(1), k(2) as usize)
}

/// reference image of the optic on one operation x : a -> b:
/// nodes F(a) R(a) F(b) R(b) m; operations fwd_x : F(a) -> F(b) ● m and rev_x : m ● R(b) -> R(a);
/// interfaces: per source node its F block then its R block, likewise for targets.
fn optic_image(ff: u64, rf: u64, r: usize, e: &PEdge, a: &[T], b: &[T]) -> Plain {
    let mut labs: Vec<T> = vec![];
    let mut alloc = |ls: Vec<T>| -> Vec<T> {
        let start = labs.len();
        labs.extend(ls.iter().cloned());
        (start..start + ls.len()).map(ci).collect()
    };
    let fa: Vec<Vec<T>> = a.iter().map(|l| alloc(obj(ff, *l))).collect();
    let ra: Vec<Vec<T>> = a.iter().map(|l| alloc(obj(rf, *l))).collect();
    let fb: Vec<Vec<T>> = b.iter().map(|l| alloc(obj(ff, *l))).collect();
    let rb: Vec<Vec<T>> = b.iter().map(|l| alloc(obj(rf, *l))).collect();
    let m: Vec<T> = alloc(vec![e.lab; r]);
    let flat = |v: &Vec<Vec<T>>| v.iter().flatten().cloned().collect::<Vec<T>>();
    let mut p = disc(&labs);
    let mut fwd_t = flat(&fb);
    fwd_t.extend(m.iter().cloned());
    let mut rev_s = m.clone();
    rev_s.extend(flat(&rb));
    p.edges = vec![PEdge { lab: e.lab, src: flat(&fa), tgt: fwd_t }, PEdge { lab: e.lab, src: rev_s, tgt: flat(&ra) }];
    p.s = fa.iter().zip(ra.iter()).flat_map(|(x, y)| x.iter().chain(y.iter()).cloned().collect::<Vec<T>>()).collect();
    p.t = fb.iter().zip(rb.iter()).flat_map(|(x, y)| x.iter().chain(y.iter()).cloned().collect::<Vec<T>>()).collect();
    p
}
pub fn optic_reference(ff: u64, rf: u64, r: usize, p: &Plain) -> Plain {
    substitute_with(
        p,
        &|l| {
            let mut v = obj(ff, l);
            v.extend(obj(rf, l));
            v
        },
        &|e, a, b| optic_image(ff, rf, r, e, a, b),
    )
}
/// split an interleaved interface (per object: F block, R block) into its F part and its R part
pub fn split(ff: u64, rf: u64, labs: &[T], refs: &[T]) -> (Vec<T>, Vec<T>) {
    let (mut f, mut r) = (vec![], vec![]);
    let mut p = 0;
    for l in labs {
        let (nf, nr) = (obj(ff, *l).len(), obj(rf, *l).len());
        f.extend(refs[p..p + nf].iter().cloned());
        p += nf;
        r.extend(refs[p..p + nr].iter().cloned());
        p += nr;
    }
    (f, r)
}

fn oracle_map(inp: &PV, out: &PV) -> T {
    if out.is_panic() {
        return tm::FALSE;
    }
    let (ff, rf, r) = params(inp, 1);
    let p = plain_of(inp.at(0).oh());
    let (a, b) = (labels_of(&p, &p.s), labels_of(&p, &p.t));
    let inter = |ls: &[T]| ls.iter().flat_map(|l| obj(ff, *l).into_iter().chain(obj(rf, *l))).collect::<Vec<T>>();
    let cat = |x: Vec<T>, y: Vec<T>| x.into_iter().chain(y).collect::<Vec<T>>();
    let fl = |fam: u64, ls: &[T]| ls.iter().flat_map(|l| obj(fam, *l)).collect::<Vec<T>>();
    let c = match super::c01::plain_checked(out.at(0).oh()) {
        None => return tm::FALSE,
        Some(c) => c,
    };
    let d = match super::c01::plain_checked(out.at(3).oh()) {
        None => return tm::FALSE,
        Some(d) => d,
    };
    let want = optic_reference(ff, rf, r, &p);
    // adapted form: same diagram, interfaces FA ● RB -> FB ● RA
    let (cs_f, cs_r) = split(ff, rf, &a, &c.s);
    let (ct_f, ct_r) = split(ff, rf, &b, &c.t);
    let mut adapted = c.clone();
    adapted.s = cat(cs_f, ct_r);
    adapted.t = cat(ct_f, cs_r);
    // monogamy of the adapted form whenever f is monogamous (the generator images here are single operations)
    let mono_in = super::c17::monogamous_formula(&p);
    let mono_out = super::c17::monogamous_formula(&d);
    tm::and(vec![
        iso(&want, &c),
        all_eq(&out.at(1).ts(), &inter(&a)),
        all_eq(&out.at(2).ts(), &inter(&b)),
        iso(&adapted, &d),
        all_eq(&out.at(4).ts(), &cat(fl(ff, &a), fl(rf, &b))),
        all_eq(&out.at(5).ts(), &cat(fl(ff, &b), fl(rf, &a))),
        tm::implies(mono_in, mono_out),
        tm::iff(out.at(6).t(), mono_out),
    ])
}
fn oracle_functorial(_inp: &PV, out: &PV) -> T {
    if out.is_panic() {
        return tm::FALSE;
    }
    let some = |o: &PV| PV::Some(Box::new(o.clone()));
    tm::and(vec![super::c03::iso_opts(out.at(0), out.at(1)), super::c03::iso_opts(&some(out.at(2)), &some(out.at(3)))])
}

pub fn jobs(tier: Tier, seed: u64) -> Vec<Job> {
    let per_job = Duration::from_secs(match tier {
        Tier::Quick => 60,
        Tier::Thorough => 600,
    });
    let cfg = base_cfg(tier);
    let bx = match tier {
        Tier::Quick => shapes(2, 1, 2, 2, 2, 2),
        Tier::Thorough => shapes(3, 2, 3, 3, 2, 2),
    };
    let optics: Vec<(u64, u64, usize)> = vec![(0, 0, 0), (0, 0, 1), (0, 2, 0), (1, 0, 1), (0, 1, 2), (1, 2, 2), (0, 0, 2), (1, 1, 0)];
    let c8 = |v: u64| PV::T(tm::c(v, 8));
    let mut all: Vec<(usize, Case)> = vec![];
    for sh in bx {
        for (ff, rf, r) in optics.iter().cloned() {
            let gen = move || PV::List(vec![PV::OH(gen_oh(&sh, "f")), c8(ff), c8(rf), c8(r as u64)]);
            let cost = sh.w * (2 + ff as usize + (rf % 2) as usize) + sh.x * (3 + r) + sh.s + sh.t + sh.a + sh.b;
            all.push((cost, crate::case!(format!("optic fwd={} rev={} residual={} on {}", ff, rf, r, sh.show()), gen, c14_map, oracle_map, 8)));
        }
    }
    let pb = match tier {
        Tier::Quick => shapes(1, 1, 1, 1, 1, 1),
        Tier::Thorough => shapes(2, 1, 2, 2, 1, 1),
    };
    for f in &pb {
        for g in &pb {
            if f.b != g.a {
                continue;
            }
            for (ff, rf, r) in [(0u64, 0u64, 0usize), (0, 0, 1), (1, 2, 1)] {
                let (f, g) = (*f, *g);
                let gen = move || {
                    let (rf_, rg) = (gen_oh(&f, "f"), gen_oh(&g, "g"));
                    super::c03::composable(&rf_, &rg);
                    PV::List(vec![PV::OH(rf_), PV::OH(rg), c8(ff), c8(rf), c8(r as u64)])
                };
                let cost = 8 + (f.w + g.w) * 2 + (f.x + g.x) * (3 + r);
                all.push((cost, crate::case!(format!("optic functorial fwd={} rev={} residual={} {} {}", ff, rf, r, f.show(), g.show()), gen, c14_functorial, oracle_functorial, 2)));
            }
        }
    }
    let mut rng = Rng::new(seed);
    let mut keyed: Vec<(usize, u64, Case)> = all.into_iter().map(|(c, k)| (c, rng.next(), k)).collect();
    keyed.sort_by_key(|(c, r, _)| (*c, *r));
    let mut strict: Vec<Job> = keyed.into_iter().map(|(c, _, k)| case_job(k, cfg.clone(), per_job, c <= 8 && tier == Tier::Quick)).collect();
    let mut lax = lax_jobs(tier);
    let mut der = derivative_jobs(tier);
    der.reverse();
    strict.reverse();
    lax.reverse();
    let mut out = vec![];
    while !strict.is_empty() || !lax.is_empty() {
        for _ in 0..3 {
            if let Some(j) = strict.pop() {
                out.push(j);
            }
        }
        if let Some(j) = lax.pop() {
            out.push(j);
        }
        for _ in 0..2 {
            if let Some(j) = der.pop() {
                out.push(j);
            }
        }
    }
    out.extend(der.into_iter().rev());
    out
}

fn oracle_lax(inp: &PV, out: &PV) -> T {
    if out.is_panic() {
        return tm::FALSE;
    }
    let (ff, rf, r) = params(inp, 1);
    let p = compact(&strict_of_lax(inp.at(0).lax()));
    let (a, b) = (labels_of(&p, &p.s), labels_of(&p, &p.t));
    let c = plain_of_lax(out.at(0).lax());
    let d = plain_of_lax(out.at(1).lax());
    let want = optic_reference(ff, rf, r, &p);
    // adapted form of the reference: interfaces FA ● RB -> FB ● RA
    let (cs_f, cs_r) = split(ff, rf, &a, &want.s);
    let (ct_f, ct_r) = split(ff, rf, &b, &want.t);
    let mut adapted = want.clone();
    adapted.s = cs_f.into_iter().chain(ct_r).collect();
    adapted.t = ct_f.into_iter().chain(cs_r).collect();
    tm::and(vec![iso(&want, &c), iso(&adapted, &d)])
}
pub fn lax_jobs(tier: Tier) -> Vec<Job> {
    let per_job = Duration::from_secs(if tier == Tier::Quick { 90 } else { 600 });
    let cfg = base_cfg(tier);
    let c8 = |v: u64| PV::T(tm::c(v, 8));
    let mut out = vec![];
    for sh in super::c13::shapes_for(tier) {
        if sh.refs() > 5 {
            continue;
        }
        for (ff, rf, r) in [(0u64, 0u64, 0usize), (0, 0, 1), (1, 2, 1), (0, 1, 2)] {
            let sh2 = sh.clone();
            let gen = move || {
                let f = gen_lax(&sh2, "f");
                crate::explore::assume(super::lax::consistent(&f));
                PV::List(vec![PV::Lax(f), c8(ff), c8(rf), c8(r as u64)])
            };
            out.push(case_job(crate::case!(format!("lax optic map_arrow/map_adapted fwd={} rev={} residual={} {}", ff, rf, r, sh.show()), gen, c14_lax, oracle_lax, 2), cfg.clone(), per_job, tier == Tier::Quick && sh.refs() <= 3));
        }
    }
    out
}

// ------------------------------------------------------------------ derivative clause
use crate::conv::{poly_arity, P_ADD, P_CONST, P_COPY, P_DISCARD, P_MUL, P_NEG};
use crate::explore::{choose, fresh, vw, Infeasible};

/// A monogamous acyclic polynomial circuit with the given operation kinds (in edge order): every node is
/// produced exactly once (by an input position or an operation output, numbered in that order) and consumed
/// exactly once (by an operation input or an output position); the consumer assignment is enumerated.
fn gen_poly_circuit(kinds: &[u64], n_in: usize) -> RawLax {
    let produced: usize = n_in + kinds.iter().map(|k| poly_arity(*k).1).sum::<usize>();
    let consumed_by_ops: usize = kinds.iter().map(|k| poly_arity(*k).0).sum();
    if consumed_by_ops > produced {
        std::panic::panic_any(Infeasible);
    }
    let n_out = produced - consumed_by_ops;
    let obj = fresh("R", crate::explore::lw(), None);
    // enumerate a bijection nodes -> consumer slots (slots: operation inputs in order, then outputs)
    let mut free: Vec<usize> = (0..produced).collect();
    let mut slots: Vec<usize> = vec![];
    for _ in 0..produced {
        let i = choose(free.len());
        slots.push(free.remove(i));
    }
    let mut next_node = n_in;
    let mut p = 0;
    let mut adj = vec![];
    for k in kinds {
        let (a, b) = poly_arity(*k);
        let src: Vec<T> = slots[p..p + a].iter().map(|v| ci(*v)).collect();
        p += a;
        let tgt: Vec<T> = (next_node..next_node + b).map(ci).collect();
        next_node += b;
        adj.push((src, tgt));
    }
    let t: Vec<T> = slots[p..p + n_out].iter().map(|v| ci(*v)).collect();
    let r = RawLax { nodes: vec![obj; produced], edges: kinds.iter().map(|k| cl(*k)).collect(), adj, quot: vec![], s: (0..n_in).map(ci).collect(), t };
    // acyclic: every operation only reads nodes produced by inputs or by operations that can be ordered before it
    let mut known: Vec<bool> = (0..produced).map(|u| u < n_in).collect();
    let mut done = vec![false; kinds.len()];
    loop {
        let mut progress = false;
        for (e, (src, tgt)) in r.adj.iter().enumerate() {
            if !done[e] && src.iter().all(|s| known[RawLax::id(*s)]) {
                done[e] = true;
                for t in tgt {
                    known[RawLax::id(*t)] = true;
                }
                progress = true;
            }
        }
        if !progress {
            break;
        }
    }
    if !done.iter().all(|d| *d) {
        std::panic::panic_any(Infeasible);
    }
    r
}

/// reference: forward evaluation and reverse accumulation of the transposed Jacobian on the plain circuit
fn reverse_derivative(r: &RawLax, x: &[T], dy: &[T]) -> (Vec<T>, Vec<T>) {
    let n = r.nodes.len();
    let zero = tm::c(0, vw());
    let kinds: Vec<u64> = r.edges.iter().map(|l| tm::as_const(*l).unwrap()).collect();
    let id = |t: &T| RawLax::id(*t);
    let mut val: Vec<Option<T>> = vec![None; n];
    for (i, s) in r.s.iter().enumerate() {
        val[id(s)] = Some(x[i]);
    }
    let mut order = vec![];
    let mut done = vec![false; kinds.len()];
    while order.len() < kinds.len() {
        for (e, (src, tgt)) in r.adj.iter().enumerate() {
            if done[e] || !src.iter().all(|s| val[id(s)].is_some()) {
                continue;
            }
            let xs: Vec<T> = src.iter().map(|s| val[id(s)].unwrap()).collect();
            let ys: Vec<T> = match kinds[e] {
                P_ADD => vec![tm::add(xs[0], xs[1])],
                P_MUL => vec![tm::mul(xs[0], xs[1])],
                P_NEG => vec![tm::sub(zero, xs[0])],
                P_COPY => vec![xs[0], xs[0]],
                P_DISCARD => vec![],
                P_CONST => vec![tm::c(5, vw())],
                _ => unreachable!(),
            };
            for (t, y) in tgt.iter().zip(ys) {
                val[id(t)] = Some(y);
            }
            done[e] = true;
            order.push(e);
        }
    }
    let fx: Vec<T> = r.t.iter().map(|t| val[id(t)].unwrap()).collect();
    // adjoints: every node has exactly one consumer, so each adjoint is assigned once
    let mut adj: Vec<T> = vec![zero; n];
    for (j, t) in r.t.iter().enumerate() {
        adj[id(t)] = dy[j];
    }
    for e in order.iter().rev() {
        let (src, tgt) = &r.adj[*e];
        let dz: Vec<T> = tgt.iter().map(|t| adj[id(t)]).collect();
        match kinds[*e] {
            P_ADD => {
                adj[id(&src[0])] = dz[0];
                adj[id(&src[1])] = dz[0];
            }
            P_MUL => {
                adj[id(&src[0])] = tm::mul(val[id(&src[1])].unwrap(), dz[0]);
                adj[id(&src[1])] = tm::mul(val[id(&src[0])].unwrap(), dz[0]);
            }
            P_NEG => adj[id(&src[0])] = tm::sub(zero, dz[0]),
            P_COPY => adj[id(&src[0])] = tm::add(dz[0], dz[1]),
            P_DISCARD => adj[id(&src[0])] = zero,
            P_CONST => {}
            _ => unreachable!(),
        }
    }
    let dx: Vec<T> = r.s.iter().map(|s| adj[id(s)]).collect();
    (fx, dx)
}
fn oracle_derivative(inp: &PV, out: &PV) -> T {
    if out.is_panic() {
        return tm::FALSE;
    }
    let r = inp.at(0).lax();
    let (x, dy) = (inp.at(1).ts(), inp.at(2).ts());
    let (fx, dx) = reverse_derivative(r, &x, &dy);
    let want: Vec<T> = fx.into_iter().chain(dx).collect();
    match out.at(0).some() {
        // the adapted optic of any circuit is evaluable
        None => tm::FALSE,
        Some(v) => tm::and(vec![all_eq(&v.ts(), &want), out.at(1).t(), out.at(2).t()]),
    }
}
pub fn derivative_jobs(tier: Tier) -> Vec<Job> {
    let per_job = Duration::from_secs(if tier == Tier::Quick { 60 } else { 600 });
    let cfg = base_cfg(tier);
    let max_ops = if tier == Tier::Quick { 3 } else { 4 };
    let all = [P_ADD, P_MUL, P_NEG, P_COPY, P_DISCARD, P_CONST];
    let mut lists: Vec<Vec<u64>> = vec![vec![]];
    let mut frontier: Vec<Vec<u64>> = vec![vec![]];
    for _ in 0..max_ops {
        let mut next = vec![];
        for l in &frontier {
            for k in all {
                let mut m = l.clone();
                m.push(k);
                next.push(m);
            }
        }
        lists.extend(next.iter().cloned());
        frontier = next;
    }
    let mut out = vec![];
    for kinds in lists {
        let consumed: usize = kinds.iter().map(|k| poly_arity(*k).0).sum();
        let made: usize = kinds.iter().map(|k| poly_arity(*k).1).sum();
        for n_in in 0..=3usize {
            let produced = n_in + made;
            if consumed > produced || produced > 6 || produced - consumed > 3 {
                continue;
            }
            let n_out = produced - consumed;
            let k2 = kinds.clone();
            let gen = move || {
                let c = gen_poly_circuit(&k2, n_in);
                let x: Vec<T> = (0..n_in).map(|_| fresh("x", vw(), None)).collect();
                let dy: Vec<T> = (0..n_out).map(|_| fresh("dy", vw(), None)).collect();
                PV::List(vec![PV::Lax(c), PV::of_ts(&x), PV::of_ts(&dy)])
            };
            let names: Vec<&str> = kinds.iter().map(|k| match *k { P_ADD => "add", P_MUL => "mul", P_NEG => "neg", P_COPY => "copy", P_DISCARD => "discard", _ => "const" }).collect();
            out.push(case_job(crate::case!(format!("reverse derivative of circuit {:?} with {} inputs", names, n_in), gen, c14_derivative, oracle_derivative, 3), cfg.clone(), per_job, tier == Tier::Quick && kinds.len() <= 1));
        }
    }
    out
}
