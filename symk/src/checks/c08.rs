//! C08 — segmented arrays behave as lists of lists and keep their size invariant.
use super::c06::gen_ff_sym;
use super::*;
use crate::explore::{assume, fresh, iw};
use crate::plain::*;
use crate::runner::*;
use crate::term::{self as tm, T};
use std::time::Duration;

pub fn def() -> CheckDef {
    CheckDef {
        id: "C08",
        functions: &[
            "IndexedCoproduct::{new,from_semifinite,singleton,elements,initial,len,coproduct,tensor,map_indexes,indexed_values,map_values,map_semifinite,flatmap,flatmap_sources,==}",
            "IndexedCoproductFiniteFunctionIterator::{next,size_hint,len}",
            "IndexedCoproductSemifiniteFunctionIterator::{next,size_hint,len}", "IndexedCoproduct::<VecKind, SemifiniteFunction<VecKind, T>>::iter", "Operations::<VecKind, O, A>::iter",
            "NaturalArray::{segmented_sum,segmented_arange,sum} (default methods), FiniteFunction::injections",
        ],
        bounds_quick: "<=3 segments, total size <=3 (every split of the total over the segments, empty segments included), value codomains symbolic 0..=3, re-indexing maps of length <=3 (non-injective, empty, mistyped; segments+total+|x| <= 7), flatmap operands <=2 segments/total <=3",
        bounds_thorough: "<=4 segments, total <=4",
        jobs,
        budget_s: (100, 1500),
    }
}

/// list-of-lists decoding
fn lol(ic: &RawIC) -> Vec<Vec<T>> {
    segments(ic)
}
/// the size invariant: codomain of the size map = sum + 1, sum = number of values
pub fn ic_inv(ic: &RawIC) -> T {
    let sum = sum_terms(&ic.sizes);
    tm::and(vec![tm::eq(sum, ci(ic.vals.len())), tm::eq(ic.sizes_target, tm::add(sum, ci(1)))])
}
/// `ic` denotes exactly the list of lists `want` (after checking the invariant so that decoding is meaningful)
fn denotes(ic: &RawIC, want: &[Vec<T>], vals_target: Option<T>) -> T {
    if !crate::explore::branch(ic_inv(ic)) {
        return tm::FALSE;
    }
    let got = lol(ic);
    if got.len() != want.len() {
        return tm::FALSE;
    }
    let mut cs = vec![];
    for (g, w) in got.iter().zip(want.iter()) {
        cs.push(all_eq(g, w));
    }
    if let Some(t) = vals_target {
        cs.push(tm::eq(ic.vals_target, t));
    }
    tm::and(cs)
}
fn opt_denotes(o: &PV, defined: T, want: &[Vec<T>], vt: Option<T>) -> T {
    match o.some() {
        None => tm::not(defined),
        Some(r) => tm::and(vec![defined, denotes(r.ic(), want, vt)]),
    }
}

/// a well-formed segmented array of finite-function values with a symbolic value codomain
fn gen_icf_sym(x: usize, total: usize, tmax: usize, name: &str) -> RawIC {
    let vt = fresh(&format!("{}VT", name), iw(), Some(tmax as u64 + 1));
    let vals: Vec<T> = (0..total).map(|_| fresh(&format!("{}v", name), iw(), Some(tmax as u64 + 1))).collect();
    for v in &vals {
        assume(tm::ult(*v, vt));
    }
    RawIC { sizes: gen_sizes(x, total, &format!("{}z", name)), sizes_target: ci(total + 1), vals, vals_target: vt }
}
fn gen_icl(x: usize, total: usize, name: &str) -> RawIC {
    RawIC { sizes: gen_sizes(x, total, &format!("{}z", name)), sizes_target: ci(total + 1), vals: gen_labels(total, &format!("{}l", name)), vals_target: ci(0) }
}

fn oracle_new(inp: &PV, out: &PV) -> T {
    if out.is_panic() {
        return tm::FALSE;
    }
    let (src, vals) = (inp.at(0).ff(), inp.at(1).ff());
    let labels = inp.at(2).ts();
    let sum = sum_terms(&src.table);
    let in_range = tm::and(src.table.iter().map(|v| tm::ult(*v, src.target)).collect());
    let _ = in_range;
    // new: exactly the two documented equalities
    let ok_new = tm::and(vec![tm::eq(src.target, tm::add(sum, ci(1))), tm::eq(sum, ci(vals.table.len()))]);
    let same = |o: &PV, ok: T, n: usize, vt: Option<T>, vs: &[T]| match o.some() {
        None => tm::not(ok),
        Some(r) => {
            let r = r.ic();
            let mut cs = vec![ok, all_eq(&r.sizes, &src.table), tm::eq(r.sizes_target, ci(n + 1)), all_eq(&r.vals, vs)];
            if let Some(t) = vt {
                cs.push(tm::eq(r.vals_target, t));
            }
            tm::and(cs)
        }
    };
    // from_semifinite: sizes sum to the value length (each size is then automatically < len + 1)
    let ok_fs = tm::eq(sum, ci(vals.table.len()));
    let ok_fl = tm::eq(sum, ci(labels.len()));
    tm::and(vec![
        same(out.at(0), ok_new, vals.table.len(), Some(vals.target), &vals.table),
        same(out.at(1), ok_fs, vals.table.len(), Some(vals.target), &vals.table),
        same(out.at(2), ok_fl, labels.len(), None, &labels),
    ])
}

fn oracle_ctor(inp: &PV, out: &PV) -> T {
    if out.is_panic() {
        return tm::FALSE;
    }
    let vals = inp.at(0).ff();
    let labels = inp.at(1).ts();
    let t = inp.at(2).t();
    let single = |v: &[T]| vec![v.to_vec()];
    let elems = |v: &[T]| v.iter().map(|x| vec![*x]).collect::<Vec<_>>();
    tm::and(vec![
        denotes(out.at(0).ic(), &single(&vals.table), Some(vals.target)),
        denotes(out.at(1).ic(), &elems(&vals.table), Some(vals.target)),
        denotes(out.at(2).ic(), &[], Some(t)),
        denotes(out.at(3).ic(), &single(&labels), None),
        denotes(out.at(4).ic(), &elems(&labels), None),
    ])
}

fn oracle_binary(inp: &PV, out: &PV) -> T {
    if out.is_panic() {
        return tm::FALSE;
    }
    let (a, b, la, lb) = (inp.at(0).ic(), inp.at(1).ic(), inp.at(2).ic(), inp.at(3).ic());
    let (xa, xb) = (lol(a), lol(b));
    let mut cat = xa.clone();
    cat.extend(xb.iter().cloned());
    let mut ten = xa.clone();
    ten.extend(xb.iter().map(|s| s.iter().map(|v| tm::add(*v, a.vals_target)).collect::<Vec<_>>()));
    let mut lcat = lol(la);
    lcat.extend(lol(lb));
    let same_t = tm::eq(a.vals_target, b.vals_target);
    tm::and(vec![
        opt_denotes(out.at(0), same_t, &cat, Some(a.vals_target)),
        denotes(out.at(1).ic(), &ten, Some(tm::add(a.vals_target, b.vals_target))),
        opt_denotes(out.at(2), tm::TRUE, &lcat, None),
        tm::eq(out.at(3).t(), ci(a.sizes.len())),
        tm::iff(out.at(4).t(), raw_ic_eq(a, b)),
    ])
}

fn pick(x: &[Vec<T>], idx: &[T]) -> Vec<Vec<T>> {
    // segments chosen by (possibly symbolic) indices: fork on the index values
    idx.iter().map(|i| x[crate::explore::concretize(*i) as usize].clone()).collect()
}
fn oracle_reindex(inp: &PV, out: &PV) -> T {
    if out.is_panic() {
        return tm::FALSE;
    }
    let (a, la, x) = (inp.at(0).ic(), inp.at(1).ic(), inp.at(2).ff());
    let typed = tm::eq(x.target, ci(a.sizes.len()));
    if !crate::explore::branch(typed) {
        return tm::and((0..4).map(|i| tm::bconst(out.at(i).some().is_none())).collect());
    }
    let (xa, xl) = (lol(a), lol(la));
    let (wa, wl) = (pick(&xa, &x.table), pick(&xl, &x.table));
    let flat = |v: &Vec<Vec<T>>| v.iter().flat_map(|s| s.iter().cloned()).collect::<Vec<_>>();
    let ff = match out.at(1).some() {
        None => tm::FALSE,
        Some(r) => tm::and(vec![all_eq(&r.ff().table, &flat(&wa)), tm::eq(r.ff().target, a.vals_target)]),
    };
    let ll = match out.at(3).some() {
        None => tm::FALSE,
        Some(r) => all_eq(&r.ts(), &flat(&wl)),
    };
    tm::and(vec![opt_denotes(out.at(0), tm::TRUE, &wa, Some(a.vals_target)), ff, opt_denotes(out.at(2), tm::TRUE, &wl, None), ll])
}

fn oracle_mapvals(inp: &PV, out: &PV) -> T {
    if out.is_panic() {
        return tm::FALSE;
    }
    let (a, f, l) = (inp.at(0).ic(), inp.at(1).ff(), inp.at(2).ts());
    let xa = lol(a);
    let typed_f = tm::eq(a.vals_target, ci(f.table.len()));
    let typed_l = tm::eq(a.vals_target, ci(l.len()));
    let through = |tab: &[T]| xa.iter().map(|s| s.iter().map(|v| if tab.is_empty() { *v } else { tm::select(tab, *v) }).collect::<Vec<_>>()).collect::<Vec<_>>();
    tm::and(vec![opt_denotes(out.at(0), typed_f, &through(&f.table), Some(f.target)), opt_denotes(out.at(1), typed_l, &through(&l), None)])
}

fn oracle_flatmap(inp: &PV, out: &PV) -> T {
    if out.is_panic() {
        return tm::FALSE;
    }
    let (a, b) = (inp.at(0).ic(), inp.at(1).ic());
    let (xa, xb) = (lol(a), lol(b));
    let want: Vec<Vec<T>> = xa.iter().map(|s| pick(&xb, s).into_iter().flatten().collect()).collect();
    denotes(out.ic(), &want, Some(b.vals_target))
}
fn oracle_flatmap_sources(inp: &PV, out: &PV) -> T {
    if out.is_panic() {
        return tm::FALSE;
    }
    let (a, b, lb) = (inp.at(0).ic(), inp.at(1).ic(), inp.at(2).ic());
    let xa = lol(a);
    let group = |xb: Vec<Vec<T>>| {
        let mut it = xb.into_iter();
        xa.iter().map(|s| (0..s.len()).flat_map(|_| it.next().unwrap()).collect::<Vec<T>>()).collect::<Vec<_>>()
    };
    tm::and(vec![denotes(out.at(0).ic(), &group(lol(b)), Some(b.vals_target)), denotes(out.at(1).ic(), &group(lol(lb)), None)])
}
fn oracle_iter(inp: &PV, out: &PV) -> T {
    if out.is_panic() {
        return tm::FALSE;
    }
    let (a, la) = (inp.at(0).ic(), inp.at(1).ic());
    let mut cs = vec![];
    for (k, (ic, is_ff)) in [(a, true), (la, false)].into_iter().enumerate() {
        let want = lol(ic);
        let items = out.at(2 * k).list();
        let lens = out.at(2 * k + 1).list();
        if items.len() != want.len() || lens.len() != want.len() + 1 {
            return tm::FALSE;
        }
        for (i, it) in items.iter().enumerate() {
            if is_ff {
                cs.push(all_eq(&it.ff().table, &want[i]));
                cs.push(tm::eq(it.ff().target, ic.vals_target));
            } else {
                cs.push(all_eq(&it.ts(), &want[i]));
            }
        }
        // before the j-th call to next(): exactly n - j slices still to come
        for (j, l) in lens.iter().enumerate() {
            let remaining = ci(want.len() - j);
            cs.push(tm::eq(l.at(0).t(), remaining));
            cs.push(tm::eq(l.at(1).t(), remaining));
            cs.push(match l.at(2) {
                PV::None => tm::FALSE,
                x => tm::eq(x.t(), remaining),
            });
        }
    }
    tm::and(cs)
}

fn oracle_vec_iter(inp: &PV, out: &PV) -> T {
    if out.is_panic() {
        return tm::FALSE;
    }
    let (a, b, x) = (inp.at(0).ic(), inp.at(1).ic(), inp.at(2).ts());
    let (xa, xb) = (lol(a), lol(b));
    let slices = out.at(0).list();
    let triples = out.at(1).list();
    if slices.len() != xa.len() || triples.len() != x.len() {
        return tm::FALSE;
    }
    let mut cs = vec![];
    for (s, w) in slices.iter().zip(xa.iter()) {
        cs.push(all_eq(&s.ts(), w));
    }
    // the per-operation view: (label, source type, target type) in order
    for (i, t) in triples.iter().enumerate() {
        cs.push(tm::eq(t.at(0).t(), x[i]));
        cs.push(all_eq(&t.at(1).ts(), &xa[i]));
        cs.push(all_eq(&t.at(2).ts(), &xb[i]));
    }
    tm::and(cs)
}

pub fn jobs(tier: Tier, _seed: u64) -> Vec<Job> {
    let per_job = Duration::from_secs(match tier {
        Tier::Quick => 60,
        Tier::Thorough => 600,
    });
    let cfg = base_cfg(tier);
    let m = match tier {
        Tier::Quick => 3usize,
        Tier::Thorough => 4usize,
    };
    let mut cases: Vec<Case> = vec![];
    for x in 0..=m {
        for total in 0..=m {
            // checked constructors on arbitrary (possibly ill-formed) small data: sizes/codomain symbolic
            for vl in [total, (total + 1) % (m + 1)] {
                let gen = move || {
                    let src = gen_ff_sym(x, m + 1, "z");
                    PV::List(vec![PV::FF(src), PV::FF(gen_ff_sym(vl, m, "v")), PV::of_ts(&gen_labels(vl, "l"))])
                };
                cases.push(crate::case!(format!("new/from_semifinite segments={} values={}", x, vl), gen, c08_new, oracle_new, 3));
            }
            if x == 0 && total > 0 {
                continue;
            }
            let gen = move || PV::List(vec![PV::IC(gen_icf_sym(x, total, m, "a")), PV::IC(gen_icl(x, total, "b"))]);
            cases.push(crate::case!(format!("iterators segments={} total={}", x, total), gen, c08_iter, oracle_iter, 6));
            for k in 0..=m {
                if tier == Tier::Quick && x + total + k > 7 {
                    continue;
                }
                let gen = move || PV::List(vec![PV::IC(gen_icf_sym(x, total, m, "a")), PV::IC(gen_icl(x, total, "b")), PV::FF(gen_ff_sym(k, m, "x"))]);
                cases.push(crate::case!(format!("map_indexes/indexed_values segments={} total={} |x|={}", x, total, k), gen, c08_reindex, oracle_reindex, 4));
            }
            for k in 0..=m {
                let gen = move || PV::List(vec![PV::IC(gen_icf_sym(x, total, m, "a")), PV::FF(gen_ff_sym(k, m, "f")), PV::of_ts(&gen_labels(k, "l"))]);
                cases.push(crate::case!(format!("map_values/map_semifinite segments={} total={} |f|={}", x, total, k), gen, c08_mapvals, oracle_mapvals, 2));
            }
        }
    }
    // VecKind-only slice iterators and the per-operation view of an operation batch (sizes enumerated, labels symbolic)
    for nops in 0..=m {
        for (ta, tb) in [(0usize, 0usize), (2, 1), (3, 3), (1, 3)] {
            if nops == 0 && (ta > 0 || tb > 0) {
                continue;
            }
            let gen = move || {
                let split = |total: usize, name: &str| {
                    // enumerate a split of `total` over `nops` segments
                    let mut left = total;
                    let mut sizes = vec![];
                    for i in 0..nops {
                        let k = if i + 1 == nops { left } else { crate::explore::choose(left + 1) };
                        sizes.push(ci(k));
                        left -= k;
                    }
                    RawIC { sizes, sizes_target: ci(total + 1), vals: gen_labels(total, name), vals_target: ci(0) }
                };
                PV::List(vec![PV::IC(split(ta, "a")), PV::IC(split(tb, "b")), PV::of_ts(&gen_labels(nops, "x"))])
            };
            cases.push(crate::case!(format!("Vec slice iterator / Operations::iter ops={} |a|={} |b|={}", nops, ta, tb), gen, c08_vec_iter, oracle_vec_iter, 3));
        }
    }
    for n in 0..=m {
        let gen = move || PV::List(vec![PV::FF(gen_ff_sym(n, m, "v")), PV::of_ts(&gen_labels(n, "l")), PV::T(fresh("t", iw(), Some(m as u64 + 1)))]);
        cases.push(crate::case!(format!("singleton/elements/initial |values|={}", n), gen, c08_ctor, oracle_ctor, 5));
    }
    let small = |x: usize, t: usize| !(x == 0 && t > 0);
    let bm = match tier {
        Tier::Quick => 2usize,
        Tier::Thorough => 3usize,
    };
    for xa in 0..=bm {
        for ta in 0..=m {
            for xb in 0..=bm {
                for tb in 0..=bm {
                    if !small(xa, ta) || !small(xb, tb) {
                        continue;
                    }
                    let gen = move || PV::List(vec![PV::IC(gen_icf_sym(xa, ta, m, "a")), PV::IC(gen_icf_sym(xb, tb, m, "b")), PV::IC(gen_icl(xa, ta, "c")), PV::IC(gen_icl(xb, tb, "d"))]);
                    cases.push(crate::case!(format!("coproduct/tensor a={}/{} b={}/{}", xa, ta, xb, tb), gen, c08_binary, oracle_binary, 5));
                    // flatmap: values of a index the segments of b
                    if !(ta > 0 && xb == 0) {
                        let gen = move || {
                            let a = RawIC { sizes: gen_sizes(xa, ta, "az"), sizes_target: ci(ta + 1), vals: gen_idx(ta, xb, "av"), vals_target: ci(xb) };
                            PV::List(vec![PV::IC(a), PV::IC(gen_icf_sym(xb, tb, m, "b"))])
                        };
                        cases.push(crate::case!(format!("flatmap a={}/{} b={}/{}", xa, ta, xb, tb), gen, c08_flatmap, oracle_flatmap, 2));
                    }
                    // flatmap_sources: one segment of b per value of a
                    if ta == xb {
                        let gen = move || PV::List(vec![PV::IC(gen_icf_sym(xa, ta, m, "a")), PV::IC(gen_icf_sym(xb, tb, m, "b")), PV::IC(gen_icl(xb, tb, "c"))]);
                        cases.push(crate::case!(format!("flatmap_sources a={}/{} b={}/{}", xa, ta, xb, tb), gen, c08_flatmap_sources, oracle_flatmap_sources, 2));
                    }
                }
            }
        }
    }
    cases.into_iter().map(|c| case_job(c, cfg.clone(), per_job, tier == Tier::Quick)).collect()
}
