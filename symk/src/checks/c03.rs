//! C03 — symmetric monoidal category laws up to genuine isomorphism.
use super::*;
use crate::explore::assume;
use crate::plain::*;
use crate::runner::*;
use crate::term::{self as tm, T};
use std::time::Duration;

pub fn def() -> CheckDef {
    CheckDef {
        id: "C03",
        functions: &["strict::OpenHypergraph::{compose,tensor,identity,twist,source,target}", "FiniteFunction::{twist,identity,tensor,inject0,inject1,coequalizer,compose}", "finite_function::coequalizer_universal", "strict::Hypergraph::{coproduct,coequalize_vertices,discrete}", "lax::category::{Arrow::compose,Monoidal::tensor,SymmetricMonoidal::twist}, lax::OpenHypergraph::{identity,to_strict} (lax half)"],
        bounds_quick: "lax half: triples of lax diagrams with <=2 nodes, <=1 hyperedge, <=1 pending pair each (<=7 node references per triple; wirings enumerated, labels symbolic): associativity incl. right-nested un-quotiented composites, identities, interchange with identities, naturality of the symmetry, compared after to_strict; strict: associativity: triples W<=2,X<=1,S,T<=1,interfaces<=1 (+ corner triples with interfaces 2); identity laws W<=2,X<=1,S,T<=2,interfaces<=2; interchange: quadruples W<=1,X<=1,interfaces<=1; twist naturality: pairs W<=2,X<=1,interfaces<=1..2; self-inverse and hexagons: object lists of length <=2 each; seed-sampled under the budget after the mandatory corners",
        bounds_thorough: "W<=2,X<=2 everywhere, pairs W<=3, object lists <=3",
        jobs,
        budget_s: (170, 1500),
    }
}

fn lab_of(f: &RawOH, refs: &[T]) -> Vec<T> {
    refs.iter().map(|r| tm::select(&f.h.w, *r)).collect()
}
/// constrain generated operands so that f;g is well-typed
pub fn composable(f: &RawOH, g: &RawOH) {
    assume(all_eq(&lab_of(f, &f.t.table), &lab_of(g, &g.s.table)));
}
/// both sides defined, well-formed and isomorphic
pub fn iso_opts(l: &PV, r: &PV) -> T {
    match (l.some(), r.some()) {
        (Some(a), Some(b)) => match (super::c01::plain_checked(a.oh()), super::c01::plain_checked(b.oh())) {
            (Some(p), Some(q)) => iso(&p, &q),
            _ => tm::FALSE,
        },
        _ => tm::FALSE,
    }
}
fn oracle_pair(_inp: &PV, out: &PV) -> T {
    if out.is_panic() {
        return tm::FALSE;
    }
    iso_opts(out.at(0), out.at(1))
}
fn oracle_ident(inp: &PV, out: &PV) -> T {
    if out.is_panic() {
        return tm::FALSE;
    }
    let f = PV::Some(Box::new(inp.at(0).clone()));
    tm::and(vec![iso_opts(out.at(0), &f), iso_opts(out.at(1), &f)])
}
fn oracle_twist_inv(inp: &PV, out: &PV) -> T {
    if out.is_panic() {
        return tm::FALSE;
    }
    let (a, b) = (inp.at(0).ts(), inp.at(1).ts());
    let mut ab = a.clone();
    ab.extend(b.iter().cloned());
    let mut ba = b.clone();
    ba.extend(a.iter().cloned());
    tm::and(vec![iso_opts(out.at(0), out.at(1)), wf_oh(out.at(2).oh()), all_eq(&out.at(3).ts(), &ab), all_eq(&out.at(4).ts(), &ba)])
}
fn oracle_hexagon(_inp: &PV, out: &PV) -> T {
    if out.is_panic() {
        return tm::FALSE;
    }
    tm::and(vec![iso_opts(out.at(0), out.at(1)), iso_opts(out.at(2), out.at(3))])
}

fn oracle_lax(_inp: &PV, out: &PV) -> T {
    if out.is_panic() {
        return tm::FALSE;
    }
    let f = PV::Some(Box::new(out.at(4).clone()));
    tm::and(vec![iso_opts(out.at(0), out.at(1)), iso_opts(out.at(2), &f), iso_opts(out.at(3), &f), iso_opts(out.at(5), out.at(6)), iso_opts(out.at(7), out.at(8))])
}

fn gen_chain(shs: Vec<Shape>) -> impl Fn() -> PV + Send + Sync {
    move || {
        let fs: Vec<RawOH> = shs.iter().enumerate().map(|(i, s)| gen_oh(s, &format!("f{}", i))).collect();
        for i in 1..fs.len() {
            composable(&fs[i - 1], &fs[i]);
        }
        PV::List(fs.into_iter().map(PV::OH).collect())
    }
}

pub fn jobs(tier: Tier, seed: u64) -> Vec<Job> {
    let per_job = Duration::from_secs(match tier {
        Tier::Quick => 60,
        Tier::Thorough => 600,
    });
    let cfg = base_cfg(tier);
    let mut groups: Vec<Vec<(bool, Case)>> = vec![];
    let s = Shape::new;
    // ---- associativity
    let mut g_assoc = vec![];
    let corner_triples = vec![
        (s(2, 1, 1, 1, 1, 2), s(2, 0, 0, 0, 2, 2), s(2, 1, 2, 1, 2, 1)),
        (s(1, 0, 0, 0, 0, 2), s(2, 0, 0, 0, 2, 2), s(1, 0, 0, 0, 2, 0)),
        (s(2, 1, 1, 2, 1, 2), s(2, 1, 2, 2, 2, 2), s(2, 1, 2, 1, 2, 1)),
        (s(0, 0, 0, 0, 0, 0), s(1, 1, 0, 1, 0, 1), s(1, 1, 1, 0, 1, 0)),
    ];
    let tb = match tier {
        Tier::Quick => shapes(2, 1, 1, 1, 1, 1),
        Tier::Thorough => shapes(2, 2, 2, 2, 2, 2),
    };
    let mut triples = vec![];
    for f in &tb {
        for g in &tb {
            for h in &tb {
                if f.b == g.a && g.b == h.a {
                    triples.push((*f, *g, *h));
                }
            }
        }
    }
    Rng::new(seed).shuffle(&mut triples);
    triples.truncate(super::c01::MAX_JOBS / 3);
    for (must, (f, g, h)) in corner_triples.into_iter().map(|t| (true, t)).chain(triples.into_iter().map(|t| (false, t))) {
        g_assoc.push((must, crate::case!(format!("assoc {} {} {}", f.show(), g.show(), h.show()), gen_chain(vec![f, g, h]), c03_assoc, oracle_pair, 2)));
    }
    groups.push(g_assoc);
    // ---- identity laws
    let ib = match tier {
        Tier::Quick => shapes(2, 1, 2, 2, 2, 2),
        Tier::Thorough => shapes(3, 2, 3, 3, 3, 3),
    };
    let mut g_id = vec![];
    let mut ibs = ib.clone();
    Rng::new(seed ^ 1).shuffle(&mut ibs);
    for f in ibs {
        g_id.push((false, crate::case!(format!("identity-laws {}", f.show()), gen_chain(vec![f]), c03_ident, oracle_ident, 2)));
    }
    groups.push(g_id);
    // ---- interchange
    let qb = match tier {
        Tier::Quick => shapes(1, 1, 1, 1, 1, 1),
        Tier::Thorough => shapes(2, 1, 2, 2, 1, 1),
    };
    let mut quads = vec![];
    for f in &qb {
        for h in &qb {
            if f.b != h.a {
                continue;
            }
            for g in &qb {
                for k in &qb {
                    if g.b == k.a {
                        quads.push((*f, *g, *h, *k));
                    }
                }
            }
        }
    }
    Rng::new(seed ^ 2).shuffle(&mut quads);
    quads.truncate(super::c01::MAX_JOBS / 3);
    let mut g_int = vec![];
    let corner_quads = vec![(s(2, 1, 1, 2, 1, 2), s(1, 0, 0, 0, 1, 1), s(2, 0, 0, 0, 2, 1), s(1, 1, 1, 1, 1, 1)), (s(1, 1, 1, 1, 1, 1), s(1, 1, 1, 1, 1, 1), s(1, 1, 1, 1, 1, 1), s(1, 1, 1, 1, 1, 1))];
    for (must, (f, g, h, k)) in corner_quads.into_iter().map(|t| (true, t)).chain(quads.into_iter().map(|t| (false, t))) {
        let gen = move || {
            let (rf, rg, rh, rk) = (gen_oh(&f, "f"), gen_oh(&g, "g"), gen_oh(&h, "h"), gen_oh(&k, "k"));
            composable(&rf, &rh);
            composable(&rg, &rk);
            PV::List(vec![PV::OH(rf), PV::OH(rg), PV::OH(rh), PV::OH(rk)])
        };
        g_int.push((must, crate::case!(format!("interchange {} {} {} {}", f.show(), g.show(), h.show(), k.show()), gen, c03_interchange, oracle_pair, 1)));
    }
    groups.push(g_int);
    // ---- twist naturality
    let nb = match tier {
        Tier::Quick => shapes(2, 1, 1, 1, 2, 2),
        Tier::Thorough => shapes(2, 2, 2, 2, 2, 2),
    };
    let mut pairs = vec![];
    for f in &nb {
        for g in &nb {
            if f.a + g.a <= 3 && f.b + g.b <= 3 {
                pairs.push((*f, *g));
            }
        }
    }
    Rng::new(seed ^ 3).shuffle(&mut pairs);
    pairs.truncate(super::c01::MAX_JOBS / 3);
    let mut g_nat = vec![];
    let corner_pairs = vec![(s(1, 1, 1, 1, 1, 1), s(1, 1, 1, 1, 1, 1)), (s(2, 1, 1, 1, 2, 1), s(1, 0, 0, 0, 0, 2)), (s(0, 0, 0, 0, 0, 0), s(2, 1, 1, 1, 1, 2))];
    for (must, (f, g)) in corner_pairs.into_iter().map(|t| (true, t)).chain(pairs.into_iter().map(|t| (false, t))) {
        let gen = move || PV::List(vec![PV::OH(gen_oh(&f, "f")), PV::OH(gen_oh(&g, "g"))]);
        g_nat.push((must, crate::case!(format!("twist-naturality {} {}", f.show(), g.show()), gen, c03_twist_nat, oracle_pair, 1)));
    }
    groups.push(g_nat);
    // ---- self-inverse and hexagons
    let lm = match tier {
        Tier::Quick => 2,
        Tier::Thorough => 3,
    };
    let mut g_sym = vec![];
    for a in 0..=lm {
        for b in 0..=lm {
            let gen = move || PV::List(vec![PV::of_ts(&gen_labels(a, "a")), PV::of_ts(&gen_labels(b, "b"))]);
            g_sym.push((true, crate::case!(format!("twist-self-inverse |a|={} |b|={}", a, b), gen, c03_twist_inv, oracle_twist_inv, 4)));
            for c in 0..=lm {
                let gen = move || PV::List(vec![PV::of_ts(&gen_labels(a, "a")), PV::of_ts(&gen_labels(b, "b")), PV::of_ts(&gen_labels(c, "c"))]);
                g_sym.push((a + b + c <= 4, crate::case!(format!("hexagons |a|={} |b|={} |c|={}", a, b, c), gen, c03_hexagon, oracle_hexagon, 2)));
            }
        }
    }
    groups.push(g_sym);
    // ---- lax half: the same laws for lax diagrams (lax tier), compared after strictification
    let mut g_lax = vec![];
    let lshs: Vec<LaxShape> = super::lax::small_shapes(tier).into_iter().filter(|s| s.refs() <= 4 && s.n <= 2).collect();
    let mut ltriples = vec![];
    for f in &lshs {
        for g in &lshs {
            for h in &lshs {
                if f.b == g.a && g.b == h.a && f.refs() + g.refs() + h.refs() <= 8 {
                    ltriples.push((f.clone(), g.clone(), h.clone()));
                }
            }
        }
    }
    Rng::new(seed ^ 9).shuffle(&mut ltriples);
    // every triple that glues along two non-empty boundaries, then a sample of the others
    ltriples.sort_by_key(|(f, g, h)| (f.b == 0) as u8 + (g.b == 0) as u8);
    let glued = ltriples.iter().filter(|(f, g, _)| f.b > 0 && g.b > 0).count();
    for (f, g, h) in ltriples.into_iter().take(glued + if tier == Tier::Quick { 600 } else { 6000 }) {
        let name = format!("lax laws {} {} {}", f.show(), g.show(), h.show());
        let gen = move || {
            let (rf, rg, rh) = (gen_lax(&f, "f"), gen_lax(&g, "g"), gen_lax(&h, "h"));
            // composable and label-consistent operands
            let lab = |r: &RawLax, refs: &[T]| refs.iter().map(|t| r.nodes[RawLax::id(*t)]).collect::<Vec<T>>();
            assume(all_eq(&lab(&rf, &rf.t), &lab(&rg, &rg.s)));
            assume(all_eq(&lab(&rg, &rg.t), &lab(&rh, &rh.s)));
            assume(tm::and(vec![super::lax::consistent(&rf), super::lax::consistent(&rg), super::lax::consistent(&rh)]));
            PV::List(vec![PV::Lax(rf), PV::Lax(rg), PV::Lax(rh)])
        };
        g_lax.push((false, crate::case!(name, gen, c03_lax, oracle_lax, 5)));
    }
    groups.push(g_lax);
    // round-robin over the groups so every law gets a share of the budget; mandatory cases first
    // the Vec backend's connected components (the gluing step of this property when run on the Vec backend)
    let mut out = super::c07::conformance_jobs(tier, &[3, 5]);
    for grp in groups.iter_mut() {
        grp.sort_by_key(|(m, _)| !*m);
        grp.reverse();
    }
    loop {
        let mut any = false;
        for grp in groups.iter_mut() {
            if let Some((must, c)) = grp.pop() {
                any = true;
                out.push(case_job(c, cfg.clone(), per_job, must && tier == Tier::Quick));
            }
        }
        if !any {
            break;
        }
    }
    out
}
