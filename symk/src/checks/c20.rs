//! C20 — results do not depend on the unspecified choices of the array backend.
//! The same obligations as C01/C04/C06/C12/C14/C15/C16/C17/C18, decided with every open choice of the
//! array contract (argsort tie order, component numbering, sparse-bincount key order, scatter filler)
//! left to the solver.
use super::*;
use crate::explore::Cfg;
use crate::plain::*;
use crate::runner::*;
use std::time::Duration;

pub fn def() -> CheckDef {
    CheckDef {
        id: "C20",
        functions: &["(all functions of C01, C04 fusion, C06 coequalizer/universal, C12, C14, C15, C16, C17, C18) executed on adversarial conforming resolutions of: OrdArray::argsort, NaturalArray::connected_components, NaturalArray::sparse_bincount, Array::scatter"],
        bounds_quick: "(1) compose / spider fusion / coequalizer / universal map with solver-chosen component numbering and scatter filler: <=4 nodes before gluing; (2) layer, layered_operations, eval, is_acyclic, is_monogamous, degrees, HypergraphArrow with solver-chosen argsort tie order and sparse-bincount key order: W<=3, X<=2, S,T<=2..3; (3) functor and optic application with solver-chosen argsort, key order and filler, canonical component numbering: W<=2, X<=1",
        bounds_thorough: "(1) <=5 nodes before gluing; (2) W<=3, X<=2, S,T<=3 and three-operation profiles; (3) W<=2, X<=1..2",
        jobs,
        budget_s: (170, 1500),
    }
}

fn adv(tier: Tier, cc: bool, sort: bool, keys: bool, filler: bool) -> Cfg {
    let mut c = base_cfg(tier);
    c.adv_cc = cc;
    c.adv_argsort = sort;
    c.adv_keys = keys;
    c.adv_filler = filler;
    c
}

pub fn jobs(tier: Tier, seed: u64) -> Vec<Job> {
    let per_job = Duration::from_secs(match tier {
        Tier::Quick => 60,
        Tier::Thorough => 600,
    });
    let mut groups: Vec<Vec<Job>> = vec![];
    let rename = |mut j: Job, tag: &str| {
        j.name = format!("[adv {}] {}", tag, j.name);
        j
    };
    // ---- (1) gluing with adversarial numbering and filler
    let glue_cfg = adv(tier, true, true, true, true);
    let nodes_max = if tier == Tier::Quick { 4 } else { 5 };
    let mut g1 = vec![];
    let bx = shapes(2, 1, 2, 2, 1, 2);
    let mut pairs = vec![];
    for f in &bx {
        for g in &bx {
            if f.b == g.a && f.w + g.w <= nodes_max && f.w + g.w >= 2 {
                pairs.push((*f, *g));
            }
        }
    }
    Rng::new(seed).shuffle(&mut pairs);
    pairs.sort_by_key(|(f, g)| (f.w + g.w, f.x + g.x));
    for (f, g) in pairs {
        g1.push(rename(super::c01::job(f, g, glue_cfg.clone(), per_job, false), "cc+filler"));
    }
    groups.push(g1);
    let mut g1b = vec![];
    for j in super::c04::jobs(tier, seed).into_iter().filter(|j| j.name.starts_with("fusion")) {
        let mut j = rename(j, "cc+filler");
        j.cfg = glue_cfg.clone();
        j.mandatory = false;
        g1b.push(j);
    }
    for j in super::c06::jobs(tier, seed).into_iter().filter(|j| j.name.starts_with("coequalizer")) {
        let mut j = rename(j, "cc+filler");
        j.cfg = glue_cfg.clone();
        j.mandatory = false;
        g1b.push(j);
    }
    groups.push(g1b);
    // ---- (2) graph algorithms with adversarial argsort and key order
    let graph_cfg = adv(tier, false, true, true, true);
    // (one group per source list: the round-robin below gives each operation family its share of the budget)
    for src in [super::c15::jobs(tier, seed), super::c18::jobs(tier, seed), super::c16::jobs_with(tier, seed, false), super::c17::jobs(tier, seed).into_iter().filter(|j| j.name.ends_with("[dev]")).collect()] {
        let mut g2 = vec![];
        // (the Vec-conformance jobs of those lists run the Vec backend itself: nothing adversarial to resolve)
        for j in src.into_iter().filter(|j| !j.name.starts_with("[Vec backend conformance]")) {
            let mut j = rename(j, "argsort+keys");
            j.cfg = graph_cfg.clone();
            j.mandatory = false;
            g2.push(j);
        }
        groups.push(g2);
    }
    // ---- (3) functor / optic application: adversarial argsort, keys, filler; canonical numbering
    for src in [super::c12::jobs(tier, seed), super::c14::jobs(tier, seed)] {
        let mut g3 = vec![];
        for j in src.into_iter().filter(|j| !j.name.contains("native functor path") && !j.name.starts_with("lax ")).take(400) {
            let mut j = rename(j, "argsort+keys+filler");
            j.cfg = graph_cfg.clone();
            j.mandatory = false;
            g3.push(j);
        }
        groups.push(g3);
    }
    // round-robin
    for g in groups.iter_mut() {
        g.reverse();
    }
    let mut out = vec![];
    loop {
        let mut any = false;
        for g in groups.iter_mut() {
            if let Some(j) = g.pop() {
                any = true;
                out.push(j);
            }
        }
        if !any {
            break;
        }
    }
    out
}
