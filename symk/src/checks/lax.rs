//! Lax tier: checks of the `lax` module (C02/C04 lax halves, C10). The real lax code runs natively with
//! symbolic labels; node identifiers (concrete `usize` in the library) are enumerated exhaustively.
use super::c09::class_reps;
use super::*;
use crate::explore::{assume, choose};
use crate::plain::*;
use crate::runner::*;
use crate::term::{self as tm, T};
use std::time::Duration;

pub fn shift(ts: &[T], by: usize) -> Vec<T> {
    ts.iter().map(|t| ci(RawLax::id(*t) + by)).collect()
}
/// juxtaposition of lax diagrams as data (pending pairs included)
pub fn jux_lax(f: &RawLax, g: &RawLax) -> RawLax {
    let n = f.nodes.len();
    let cat = |a: &[T], b: Vec<T>| a.iter().cloned().chain(b).collect::<Vec<T>>();
    RawLax {
        nodes: cat(&f.nodes, g.nodes.clone()),
        edges: cat(&f.edges, g.edges.clone()),
        adj: f.adj.iter().cloned().chain(g.adj.iter().map(|(a, b)| (shift(a, n), shift(b, n)))).collect(),
        quot: f.quot.iter().cloned().chain(g.quot.iter().map(|(a, b)| (ci(RawLax::id(*a) + n), ci(RawLax::id(*b) + n)))).collect(),
        s: cat(&f.s, shift(&g.s, n)),
        t: cat(&f.t, shift(&g.t, n)),
    }
}
/// every class of the pending pairs carries one label
pub fn consistent(r: &RawLax) -> T {
    let rep = class_reps(r.nodes.len(), &r.quot);
    tm::and((0..r.nodes.len()).map(|u| tm::eq(r.nodes[u], r.nodes[rep[u]])).collect())
}
fn labels_at(r: &RawLax, refs: &[T]) -> Vec<T> {
    refs.iter().map(|t| r.nodes[RawLax::id(*t)]).collect()
}
fn plain_some(o: &PV) -> Option<Plain> {
    super::c01::plain_checked(o.oh())
}

fn oracle_tensor(inp: &PV, out: &PV) -> T {
    if out.is_panic() {
        return tm::FALSE;
    }
    let (f, g) = (inp.at(0).lax(), inp.at(1).lax());
    let want = jux_lax(f, g);
    let n = f.nodes.len();
    let mut appended = want.clone();
    appended.s = f.s.clone();
    appended.t = f.t.clone();
    let mut hyper = want.clone();
    hyper.s = vec![];
    hyper.t = vec![];
    tm::and(vec![
        raw_lax_eq(out.at(0).lax(), &want),
        raw_lax_eq(out.at(1).lax(), &want),
        raw_lax_eq(out.at(2).lax(), &want),
        // the in-place forms produce exactly the same data
        raw_lax_eq(out.at(3).lax(), &want),
        raw_lax_eq(out.at(4).lax(), &appended),
        all_eq(&out.at(5).ts(), &shift(&g.s, n)),
        all_eq(&out.at(6).ts(), &shift(&g.t, n)),
        raw_lax_eq(out.at(7).lax(), &hyper),
    ])
}
fn oracle_tensor3(inp: &PV, out: &PV) -> T {
    if out.is_panic() {
        return tm::FALSE;
    }
    let (f, g, h) = (inp.at(0).lax(), inp.at(1).lax(), inp.at(2).lax());
    let want = jux_lax(&jux_lax(f, g), h);
    tm::and(vec![raw_lax_eq(out.at(0).lax(), &want), raw_lax_eq(out.at(1).lax(), &want), raw_lax_eq(out.at(2).lax(), f), raw_lax_eq(out.at(3).lax(), f), tm::bconst(out.at(4).ts().is_empty())])
}
fn oracle_compose(inp: &PV, out: &PV) -> T {
    if out.is_panic() {
        return tm::FALSE;
    }
    let (f, g) = (inp.at(0).lax(), inp.at(1).lax());
    let arity_ok = f.t.len() == g.s.len();
    let types_eq = if arity_ok { all_eq(&labels_at(f, &f.t), &labels_at(g, &g.s)) } else { tm::FALSE };
    let both_consistent = tm::and2(consistent(f), consistent(g));
    let meaning = |o: &PV| -> T {
        // the result means: the two strict meanings glued along the boundary
        let r = o.lax();
        let want = pushout(&strict_of_lax(f), &strict_of_lax(g));
        tm::implies(both_consistent, iso(&want, &strict_of_lax(r)))
    };
    let checked = |o: &PV| match o.some() {
        None => tm::not(types_eq),
        Some(r) => tm::and(vec![types_eq, meaning(r)]),
    };
    let unchecked = match out.at(2).some() {
        None => tm::bconst(!arity_ok),
        Some(r) => tm::and(vec![tm::bconst(arity_ok), tm::implies(types_eq, meaning(r))]),
    };
    tm::and(vec![checked(out.at(0)), checked(out.at(1)), unchecked])
}
fn oracle_to_strict(inp: &PV, out: &PV) -> T {
    let f = inp.at(0).lax();
    let ok = consistent(f);
    match out {
        PV::Panic(_) => tm::not(ok),
        PV::OH(r) => match super::c01::plain_checked(r) {
            None => tm::FALSE,
            Some(p) => tm::and(vec![ok, iso(&strict_of_lax(f), &p)]),
        },
        _ => tm::FALSE,
    }
}
fn oracle_roundtrip(inp: &PV, out: &PV) -> T {
    if out.is_panic() {
        return tm::FALSE;
    }
    let r = inp.at(0).lax();
    tm::and(vec![raw_lax_eq(out.at(0).lax(), r), raw_lax_eq(out.at(1).lax(), r), raw_oh_eq(out.at(2).oh(), out.at(3).oh()), wf_oh(out.at(3).oh()), out.at(4).t()])
}
fn oracle_commute(inp: &PV, out: &PV) -> T {
    if out.is_panic() {
        return tm::FALSE;
    }
    let f = inp.at(0).lax();
    let pair = |a: &PV, b: &PV| match (plain_some(a), plain_some(b)) {
        (Some(p), Some(q)) => iso(&p, &q),
        _ => tm::FALSE,
    };
    let comp = match (out.at(0).some(), out.at(1).some()) {
        (None, None) => tm::TRUE,
        (Some(a), Some(b)) => pair(a, b),
        _ => tm::FALSE,
    };
    let mut dag = f.clone();
    std::mem::swap(&mut dag.s, &mut dag.t);
    tm::and(vec![comp, pair(out.at(2), out.at(3)), pair(out.at(4), out.at(5)), raw_lax_eq(out.at(6).lax(), &dag), raw_lax_eq(out.at(7).lax(), f)])
}
fn oracle_constructors(inp: &PV, out: &PV) -> T {
    if out.is_panic() {
        return tm::FALSE;
    }
    let (a, b, x) = (inp.at(0).ts(), inp.at(1).ts(), inp.at(2).t());
    let (s, t, w) = (inp.at(3).ff(), inp.at(4).ff(), inp.at(5).ts());
    let ids = |from: usize, n: usize| (from..from + n).map(ci).collect::<Vec<T>>();
    let cat = |p: &[T], q: &[T]| p.iter().chain(q.iter()).cloned().collect::<Vec<T>>();
    let id_want = RawLax { nodes: a.clone(), edges: vec![], adj: vec![], quot: vec![], s: ids(0, a.len()), t: ids(0, a.len()) };
    let tw = out.at(2).lax();
    let tw_ref = Plain { n: a.len() + b.len(), alive: vec![tm::TRUE; a.len() + b.len()], lab: cat(&b, &a), s: cat(&ids(b.len(), a.len()), &ids(0, b.len())), t: ids(0, a.len() + b.len()), edges: vec![] };
    let single = out.at(5).lax();
    let single_ref = Plain { n: a.len() + b.len(), alive: vec![tm::TRUE; a.len() + b.len()], lab: cat(&a, &b), s: ids(0, a.len()), t: ids(a.len(), b.len()), edges: vec![PEdge { lab: x, src: ids(0, a.len()), tgt: ids(a.len(), b.len()) }] };
    let sp_ok = RawLax::id(s.target) == w.len() && RawLax::id(t.target) == w.len();
    let sp_want = RawLax { nodes: w.clone(), edges: vec![], adj: vec![], quot: vec![], s: s.table.clone(), t: t.table.clone() };
    let sp = |o: &PV| match o.some() {
        None => tm::bconst(!sp_ok),
        Some(r) => tm::and(vec![tm::bconst(sp_ok), raw_lax_eq(r.lax(), &sp_want)]),
    };
    let hs_ok = RawLax::id(s.target) == w.len();
    let hs_want = RawLax { nodes: w.clone(), edges: vec![], adj: vec![], quot: vec![], s: s.table.clone(), t: ids(0, w.len()) };
    let hs = match out.at(10).some() {
        None => tm::bconst(!hs_ok),
        Some(r) => tm::and(vec![tm::bconst(hs_ok), raw_lax_eq(r.lax(), &hs_want)]),
    };
    let e = out.at(11).lax();
    tm::and(vec![
        raw_lax_eq(out.at(0).lax(), &id_want),
        raw_lax_eq(out.at(1).lax(), &id_want),
        tm::bconst(tw.quot.is_empty() && tw.edges.is_empty()),
        iso(&tw_ref, &plain_of_lax(tw)),
        all_eq(&out.at(3).ts(), &cat(&a, &b)),
        all_eq(&out.at(4).ts(), &cat(&b, &a)),
        tm::bconst(single.quot.is_empty()),
        iso(&single_ref, &plain_of_lax(single)),
        all_eq(&out.at(6).ts(), &a),
        all_eq(&out.at(7).ts(), &b),
        sp(out.at(8)),
        sp(out.at(9)),
        hs,
        tm::bconst(e.nodes.is_empty() && e.edges.is_empty() && e.adj.is_empty() && e.quot.is_empty() && e.s.is_empty() && e.t.is_empty()),
        // strictification commutes with the constructors; spiders are defined on both sides or on neither
        tm::and(
            (0..3)
                .map(|i| match (plain_some(out.at(12).at(i)), plain_some(out.at(13).at(i))) {
                    (Some(p), Some(q)) => iso(&p, &q),
                    _ => tm::FALSE,
                })
                .collect(),
        ),
        match (out.at(12).at(3).some(), out.at(13).at(3).some()) {
            (None, None) => tm::TRUE,
            (Some(p), Some(q)) => match (super::c01::plain_checked(p.oh()), super::c01::plain_checked(q.oh())) {
                (Some(p), Some(q)) => iso(&p, &q),
                _ => tm::FALSE,
            },
            _ => tm::FALSE,
        },
    ])
}

/// lax shapes used for binary laws
pub fn small_shapes(tier: Tier) -> Vec<LaxShape> {
    let mut v = vec![];
    let nmax = if tier == Tier::Quick { 2 } else { 3 };
    for n in 0..=nmax {
        // the two-hyperedge shape has hyperedges of different incidence, so that their order is visible
        for ar in [vec![], vec![(1usize, 1usize)], vec![(0, 2)], vec![(2, 0)], vec![(1, 0), (0, 1)]] {
            for q in 0..=2usize {
                // interfaces of length 3: boundaries that repeat nodes on both sides of a gluing
                for a in 0..=3usize {
                    for b in 0..=3usize {
                        if q == 2 && (a + b > 1 || !ar.is_empty()) {
                            continue;
                        }
                        if (a == 3 || b == 3) && (q > 0 || !ar.is_empty() || a + b > 3) {
                            continue;
                        }
                        let sh = LaxShape::new(n, &ar, q, a, b);
                        if sh.inhabited() && sh.refs() <= (if tier == Tier::Quick { 5 } else { 7 }) {
                            v.push(sh);
                        }
                    }
                }
            }
        }
    }
    v
}
fn gen_consistent(sh: &LaxShape, name: &str) -> RawLax {
    let r = gen_lax(sh, name);
    assume(consistent(&r));
    r
}

pub fn c02_lax_jobs(tier: Tier, seed: u64) -> Vec<Job> {
    let per_job = Duration::from_secs(if tier == Tier::Quick { 60 } else { 600 });
    let cfg = base_cfg(tier);
    let shs = small_shapes(tier);
    let mut pairs = vec![];
    for f in &shs {
        for g in &shs {
            if f.refs() + g.refs() <= (if tier == Tier::Quick { 6 } else { 9 }) {
                pairs.push((f.clone(), g.clone()));
            }
        }
    }
    Rng::new(seed).shuffle(&mut pairs);
    pairs.sort_by_key(|(f, g)| !(g.q > 0 && f.n > 0));
    let mut out = vec![];
    for (i, (f, g)) in pairs.into_iter().enumerate() {
        let (f2, g2) = (f.clone(), g.clone());
        let c = crate::case!(format!("lax tensor (+in-place forms) {} {}", f.show(), g.show()), move || PV::List(vec![PV::Lax(gen_lax(&f2, "f")), PV::Lax(gen_lax(&g2, "g"))]), lax_tensor, oracle_tensor, 8);
        out.push(case_job(c, cfg.clone(), per_job, i < 200 && tier == Tier::Quick));
    }
    let tiny: Vec<LaxShape> = shs.iter().filter(|s| s.refs() <= 2 && s.n <= 1).cloned().collect();
    let mut triples = vec![];
    for f in &tiny {
        for g in &tiny {
            for h in &tiny {
                triples.push((f.clone(), g.clone(), h.clone()));
            }
        }
    }
    Rng::new(seed ^ 3).shuffle(&mut triples);
    for (f, g, h) in triples.into_iter().take(if tier == Tier::Quick { 400 } else { 4000 }) {
        let (f2, g2, h2) = (f.clone(), g.clone(), h.clone());
        let c = crate::case!(format!("lax tensor assoc/unit {} {} {}", f.show(), g.show(), h.show()), move || PV::List(vec![PV::Lax(gen_lax(&f2, "f")), PV::Lax(gen_lax(&g2, "g")), PV::Lax(gen_lax(&h2, "h"))]), lax_tensor3, oracle_tensor3, 5);
        out.push(case_job(c, cfg.clone(), per_job, false));
    }
    out
}

pub fn c04_lax_jobs(tier: Tier, _seed: u64) -> Vec<Job> {
    let per_job = Duration::from_secs(if tier == Tier::Quick { 60 } else { 600 });
    let cfg = base_cfg(tier);
    let m = if tier == Tier::Quick { 2usize } else { 3usize };
    let mut out = vec![];
    for na in 0..=m {
        for nb in 0..=m {
            for nw in 0..=m {
                for (ls, lt) in [(0usize, 0usize), (1, 2), (2, 1), (2, 2)] {
                    let gen = move || {
                        // legs with enumerated codomains (typed and mistyped) and entries
                        let leg = |k: usize| {
                            let target = choose(m + 2);
                            if target == 0 && k > 0 {
                                std::panic::panic_any(crate::explore::Infeasible);
                            }
                            RawFF { table: (0..k).map(|_| ci(choose(target.max(1)))).collect(), target: ci(target) }
                        };
                        PV::List(vec![PV::of_ts(&gen_labels(na, "a")), PV::of_ts(&gen_labels(nb, "b")), PV::T(crate::explore::fresh("x", crate::explore::lw(), None)), PV::FF(leg(ls)), PV::FF(leg(lt)), PV::of_ts(&gen_labels(nw, "w"))])
                    };
                    out.push(case_job(crate::case!(format!("lax identity/twist/singleton/spider/half_spider |a|={} |b|={} |w|={} legs {}/{}", na, nb, nw, ls, lt), gen, lax_constructors, oracle_constructors, 14), cfg.clone(), per_job, tier == Tier::Quick));
                }
            }
        }
    }
    out
}

pub fn c10_jobs(tier: Tier, seed: u64) -> Vec<Job> {
    let per_job = Duration::from_secs(if tier == Tier::Quick { 60 } else { 600 });
    let cfg = base_cfg(tier);
    let shs = small_shapes(tier);
    let mut groups: Vec<Vec<Job>> = vec![];
    // conversions
    let mut g1 = vec![];
    let mut conv: Vec<LaxShape> = vec![];
    let nmax = if tier == Tier::Quick { 3 } else { 4 };
    for n in 0..=nmax {
        for ar in [vec![], vec![(1usize, 1usize)], vec![(2, 1)], vec![(0, 0)], vec![(1, 0), (0, 1)]] {
            for q in 0..=2usize {
                for (a, b) in [(0usize, 0usize), (1, 1), (2, 1)] {
                    let sh = LaxShape::new(n, &ar, q, a, b);
                    if sh.inhabited() && sh.refs() <= (if tier == Tier::Quick { 7 } else { 9 }) {
                        conv.push(sh);
                    }
                }
            }
        }
    }
    conv.sort_by_key(|s| s.refs());
    for sh in conv {
        let sh2 = sh.clone();
        let c = crate::case!(format!("to_strict {}", sh.show()), move || PV::List(vec![PV::Lax(gen_lax(&sh2, "f"))]), lax_to_strict, oracle_to_strict, 2);
        g1.extend(split_by_choices(case_job(c, cfg.clone(), per_job, tier == Tier::Quick), sh.n, if sh.refs() >= 7 { 2 } else { 0 }));
        if sh.q == 0 {
            let sh3 = sh.clone();
            let c = crate::case!(format!("round trips {}", sh.show()), move || PV::List(vec![PV::Lax(gen_lax(&sh3, "f"))]), lax_roundtrip, oracle_roundtrip, 5);
            g1.extend(split_by_choices(case_job(c, cfg.clone(), per_job, tier == Tier::Quick), sh.n, if sh.refs() >= 7 { 2 } else { 0 }));
        }
    }
    groups.push(g1);
    // composition and commutation
    let mut pairs = vec![];
    for f in &shs {
        for g in &shs {
            if f.refs() + g.refs() <= (if tier == Tier::Quick { 6 } else { 8 }) {
                pairs.push((f.clone(), g.clone()));
            }
        }
    }
    Rng::new(seed).shuffle(&mut pairs);
    pairs.sort_by_key(|(f, g)| (f.b != g.a) as u8 + (f.b == 0) as u8);
    let mut g2 = vec![];
    let mut g3 = vec![];
    for (i, (f, g)) in pairs.into_iter().enumerate() {
        let (f2, g2s) = (f.clone(), g.clone());
        let c = crate::case!(format!("lax compose/lax_compose {} {}", f.show(), g.show()), move || PV::List(vec![PV::Lax(gen_lax(&f2, "f")), PV::Lax(gen_lax(&g2s, "g"))]), lax_compose, oracle_compose, 3);
        g2.push(case_job(c, cfg.clone(), per_job, i < 150 && tier == Tier::Quick));
        let (f3, g3s) = (f.clone(), g.clone());
        let c = crate::case!(format!("strictification commutes with ; (x) dagger {} {}", f.show(), g.show()), move || PV::List(vec![PV::Lax(gen_consistent(&f3, "f")), PV::Lax(gen_consistent(&g3s, "g"))]), lax_commute, oracle_commute, 5);
        g3.push(case_job(c, cfg.clone(), per_job, i < 150 && tier == Tier::Quick));
    }
    groups.push(g2);
    groups.push(g3);
    // in-place forms: shared with the C02 lax jobs
    groups.push(c02_lax_jobs(tier, seed).into_iter().filter(|j| j.name.starts_with("lax tensor (+in-place")).collect());
    // constructors: identity, symmetry, singleton, spiders (lax result against the closed form and against the
    // strict constructor on the same arguments): shared with the C04 lax jobs
    groups.push(c04_lax_jobs(tier, seed));
    for g in groups.iter_mut() {
        g.reverse();
    }
    // the Vec backend's connected components (the gluing step of this property when run on the Vec backend)
    let mut out = super::c07::conformance_jobs(tier, &[3, 5]);
    loop {
        let mut any = false;
        for g in groups.iter_mut() {
            if let Some(j) = g.pop() {
                any = true;
                out.push(j);
            }
        }
        if !any {
            break;
        }
    }
    out
}

pub fn def_c10() -> CheckDef {
    CheckDef {
        id: "C10",
        functions: &["lax::OpenHypergraph::{to_strict,from_strict,quotient,tensor,identity,spider,singleton}", "lax::Hypergraph::{to_hypergraph,from_strict,coproduct,coequalizer,is_strict}", "lax::category::{Arrow::compose,lax_compose,Monoidal::tensor,SymmetricMonoidal::twist,Spider::dagger}", "lax::mut_category::{tensor_assign,append,coproduct_assign}", "strict::OpenHypergraph::<VecKind>::{compose,tensor,dagger,new}"],
        bounds_quick: "conversions: <=3 nodes, <=2 hyperedges (arities up to 2->1), <=2 pending pairs, interfaces <=2 (<=7 node references); compose / commutation / in-place forms: pairs of diagrams with <=2 nodes, <=1 hyperedge, <=1 pending pair each, <=6 node references per pair; all wirings enumerated, labels symbolic",
        bounds_thorough: "conversions <=4 nodes / <=9 references; pairs <=3 nodes each / <=8 references",
        jobs: c10_jobs,
        budget_s: (110, 1500),
    }
}
