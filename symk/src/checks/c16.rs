//! C16 — evaluation computes the diagram's function and refuses cyclic diagrams.
use super::*;
use crate::explore::{fresh, iw, vw};
use crate::plain::*;
use crate::runner::*;
use crate::sym::{sig_apply, sig_arity};
use crate::term::{self as tm, T};
use std::time::Duration;

pub fn def() -> CheckDef {
    CheckDef {
        id: "C16",
        functions: &["strict::eval::{eval,eval_order,layer_function_to_layers}", "strict::layer::layer", "strict::graph::{operation_adjacency,converse,kahn,...}", "IndexedCoproduct::{map_indexes,map_semifinite,elements,into_iter}", "Array::{scatter_assign,gather,fill}"],
        bounds_quick: "circuits over {add,sub,and,xor,neg,copy,const,discard} with <=2 operations (every multiset of kinds, both edge orders), W<=4 nodes, <=2 inputs, <=2 outputs; wiring and input values symbolic (values are opaque to eval; 16-bit test interpreter) (cyclic, multiply-written and fan-out wirings included)",
        bounds_thorough: "<=3 operations, W<=5",
        jobs,
        budget_s: (170, 1500),
    }
}

/// a circuit whose operation kinds are fixed and whose wiring is free
pub fn gen_circuit(kinds: &[u64], w: usize, a: usize, b: usize) -> RawOH {
    let s_total: usize = kinds.iter().map(|k| sig_arity(*k).0).sum();
    let t_total: usize = kinds.iter().map(|k| sig_arity(*k).1).sum();
    let zero = cl(0);
    RawOH {
        s: RawFF { table: gen_idx(a, w, "in"), target: ci(w) },
        t: RawFF { table: gen_idx(b, w, "out"), target: ci(w) },
        h: RawH {
            s: RawIC { sizes: kinds.iter().map(|k| ci(sig_arity(*k).0)).collect(), sizes_target: ci(s_total + 1), vals: gen_idx(s_total, w, "es"), vals_target: ci(w) },
            t: RawIC { sizes: kinds.iter().map(|k| ci(sig_arity(*k).1)).collect(), sizes_target: ci(t_total + 1), vals: gen_idx(t_total, w, "et"), vals_target: ci(w) },
            w: vec![zero; w],
            x: kinds.iter().map(|k| cl(*k)).collect(),
        },
    }
}

pub struct EvalModel {
    pub acyclic: T,
    pub single_writer: T,
    pub reads_written: T,
    /// value of every node (after enough rounds), unwritten nodes hold the default 0
    pub val: Vec<T>,
}
pub fn eval_model(p: &Plain, kinds: &[u64], inputs: &[T]) -> EvalModel {
    let x = p.edges.len();
    let m = super::c15::dep_model(p);
    let acyclic = tm::and(m.cyc.iter().map(|c| tm::not(*c)).collect());
    // writers: every hyperedge target position and every input position
    let mut writers: Vec<T> = p.s.clone();
    for e in &p.edges {
        writers.extend(e.tgt.iter().cloned());
    }
    let mut sw = vec![];
    for i in 0..writers.len() {
        for j in 0..i {
            sw.push(tm::ne(writers[i], writers[j]));
        }
    }
    let mut reads: Vec<T> = p.t.clone();
    for e in &p.edges {
        reads.extend(e.src.iter().cloned());
    }
    let reads_written = tm::and(reads.iter().map(|r| tm::or(writers.iter().map(|w| tm::eq(*r, *w)).collect())).collect());
    // Jacobi iteration
    let zero = tm::c(0, vw());
    let mut val: Vec<T> = (0..p.n)
        .map(|u| {
            let mut v = zero;
            for (i, s) in p.s.iter().enumerate() {
                v = tm::ite(tm::eq(*s, ci(u)), inputs[i], v);
            }
            v
        })
        .collect();
    for _ in 0..x {
        let mut nv = val.clone();
        for (e, k) in p.edges.iter().zip(kinds.iter()) {
            let xs: Vec<T> = e.src.iter().map(|r| tm::select(&val, *r)).collect();
            let ys = sig_apply(*k, &xs);
            for (t, y) in e.tgt.iter().zip(ys.iter()) {
                for u in 0..p.n {
                    nv[u] = tm::ite(tm::eq(*t, ci(u)), *y, nv[u]);
                }
            }
        }
        val = nv;
    }
    EvalModel { acyclic, single_writer: tm::and(sw), reads_written, val }
}

pub fn oracle_for(kinds: Vec<u64>, need_reads_written: bool) -> impl Fn(&PV, &PV) -> T + Send + Sync {
    move |inp: &PV, out: &PV| {
        if out.is_panic() {
            return tm::FALSE;
        }
        let p = plain_of(inp.at(0).oh());
        let inputs = inp.at(1).ts();
        let m = eval_model(&p, &kinds, &inputs);
        let log: Vec<u64> = out.at(1).ts().iter().map(|t| tm::as_const(*t).unwrap()).collect();
        match out.at(0).some() {
            // refusal: exactly the diagrams whose dependency relation has a cycle
            None => tm::not(m.acyclic),
            Some(vals) => {
                let vals = vals.ts();
                if vals.len() != p.t.len() {
                    return tm::FALSE;
                }
                let mut ok = vec![m.acyclic];
                // every hyperedge interpreted exactly once (multiset of kinds seen by the interpreter)
                let mut a = log.clone();
                let mut b = kinds.clone();
                a.sort();
                b.sort();
                ok.push(tm::bconst(a == b));
                let pre = if need_reads_written { tm::and2(m.single_writer, m.reads_written) } else { m.single_writer };
                let want: Vec<T> = p.t.iter().map(|r| tm::select(&m.val, *r)).collect();
                ok.push(tm::implies(pre, all_eq(&vals, &want)));
                tm::and(ok)
            }
        }
    }
}

pub fn kind_lists(max_ops: usize, kinds: &[u64]) -> Vec<Vec<u64>> {
    let mut out = vec![vec![]];
    let mut frontier = vec![vec![]];
    for _ in 0..max_ops {
        let mut next = vec![];
        for l in &frontier {
            for k in kinds {
                let mut m: Vec<u64> = l.clone();
                m.push(*k);
                next.push(m);
            }
        }
        out.extend(next.iter().cloned());
        frontier = next;
    }
    out
}

pub fn jobs(tier: Tier, seed: u64) -> Vec<Job> {
    jobs_with(tier, seed, true)
}
/// `need_reads_written = false` additionally requires nodes that nothing writes to hold `T::default()`
/// (what every conforming backend must agree on; used by C20)
pub fn jobs_with(tier: Tier, seed: u64, need_rw: bool) -> Vec<Job> {
    let per_job = Duration::from_secs(match tier {
        Tier::Quick => 60,
        Tier::Thorough => 600,
    });
    // `eval` treats values as opaque (`T: Default + Clone`): the library never computes with them, only the
    // test interpreter does. The value width therefore does not change what the library does; 16-bit values keep
    // the final obligations (nests of index-dependent selections around the gates) cheap for the SAT back end.
    let mut cfg = base_cfg(tier);
    cfg.vw = 16;
    let (max_ops, wmax) = match tier {
        Tier::Quick => (2, 4),
        Tier::Thorough => (3, 5),
    };
    let mut cases: Vec<(u32, Case)> = vec![];
    for kinds in kind_lists(max_ops, &[0, 1, 2, 3, 4, 5, 6, 7]) {
        let s_total: usize = kinds.iter().map(|k| sig_arity(*k).0).sum();
        let t_total: usize = kinds.iter().map(|k| sig_arity(*k).1).sum();
        for w in 1..=wmax {
            for a in 0..=2usize {
                for b in 0..=2usize {
                    // keep the shapes in which a fully wired circuit exists, plus slack for dangling nodes
                    if w > s_total + t_total + a + b || (w as isize) < (t_total as isize + a as isize) - 1 {
                        continue;
                    }
                    let k2 = kinds.clone();
                    let gen = move || {
                        let f = gen_circuit(&k2, w, a, b);
                        let xs: Vec<T> = (0..a).map(|_| fresh("x", vw(), None)).collect();
                        PV::List(vec![PV::OH(f), PV::of_ts(&xs)])
                    };
                    let cost = (kinds.len() * 10 + w) as u32;
                    cases.push((cost, crate::case!(format!("eval kinds={:?} W={} in={} out={}", kinds, w, a, b), gen, c16_eval, oracle_for(kinds.clone(), need_rw), 4)));
                }
            }
        }
    }
    // refusal clause on three-operation circuits (operations whose producers sit in different layers):
    // closed circuits, so no symbolic values are involved
    for base in [vec![9u64, 4, 10], vec![9, 0, 7]] {
        for perm in crate::plain::perms(3) {
            let kinds: Vec<u64> = perm.iter().map(|i| base[*i]).collect();
            let k2 = kinds.clone();
            let gen = move || PV::List(vec![PV::OH(gen_circuit(&k2, 3, 0, 0)), PV::of_ts(&[])]);
            cases.push((1, crate::case!(format!("eval-refusal kinds={:?} W=3 closed", kinds), gen, c16_eval, oracle_for(kinds.clone(), true), 2)));
        }
    }
    // three-operation circuits restricted (by assumption) to the inputs of the value clause:
    // acyclic, every node written at most once, every node that is read is written
    let three: Vec<Vec<u64>> = match tier {
        Tier::Quick => vec![],
        Tier::Thorough => kind_lists(3, &[0, 1, 4, 5, 6]).into_iter().filter(|k| k.len() == 3).collect(),
    };
    for kinds in three {
        let s_total: usize = kinds.iter().map(|k| sig_arity(*k).0).sum();
        let t_total: usize = kinds.iter().map(|k| sig_arity(*k).1).sum();
        // fully wired: every output of an operation and every input is a distinct node
        for a in 0..=2usize {
            let w = t_total + a;
            if w == 0 || w > 6 {
                continue;
            }
            let b = (t_total + a).saturating_sub(s_total).min(2);
            let k2 = kinds.clone();
            let gen = move || {
                let f = gen_circuit(&k2, w, a, b);
                let xs: Vec<T> = (0..a).map(|_| fresh("x", vw(), None)).collect();
                let m = eval_model(&plain_of(&f), &k2, &xs);
                crate::explore::assume(tm::and(vec![m.acyclic, m.single_writer, m.reads_written]));
                PV::List(vec![PV::OH(f), PV::of_ts(&xs)])
            };
            cases.push((5, crate::case!(format!("eval-wellformed kinds={:?} W={} in={} out={}", kinds, w, a, b), gen, c16_eval, oracle_for(kinds.clone(), true), 4)));
        }
    }
    let _ = iw();
    let mut rng = Rng::new(seed);
    let mut keyed: Vec<(u32, u64, Case)> = cases.into_iter().map(|(c, k)| (c, rng.next(), k)).collect();
    keyed.sort_by_key(|(c, r, _)| (*c / 10, *r));
    let mut out = super::c07::conformance_jobs(tier, &[0, 1, 2, 4]);
    out.extend(keyed.into_iter().map(|(c, _, k)| case_job(k, cfg.clone(), per_job, c < 20 && tier == Tier::Quick)));
    out
}
