//! C04 (strict half) — dagger and spiders: the hypergraph-category (Frobenius) structure.
use super::*;
use crate::explore::{assume, fresh, iw};
use crate::plain::*;
use crate::runner::*;
use crate::term::{self as tm, T};
use std::time::Duration;

pub fn def() -> CheckDef {
    CheckDef {
        id: "C04",
        functions: &["strict::OpenHypergraph::{dagger,spider,identity,twist,compose,tensor}", "category::Spider::{spider,half_spider,dagger}", "strict::Hypergraph::{discrete,is_discrete}", "FiniteFunction::{identity,twist,coequalizer}", "lax::OpenHypergraph::{spider,identity,singleton,empty}", "lax::category::{Spider::{spider,half_spider,dagger},SymmetricMonoidal::twist}"],
        bounds_quick: "dagger laws: W<=2,X<=1,S,T<=2,interfaces<=2 (pairs: interfaces<=1); spider accept/reject: |w|<=2, legs<=2 with symbolic codomains 0..3; fusion: |w|,|w'|<=2, legs<=2 (shared boundary <=2)",
        bounds_thorough: "dagger laws W<=3,X<=2; spiders |w|<=3, legs<=3",
        jobs,
        budget_s: (100, 1500),
    }
}

fn oracle_dagger(inp: &PV, out: &PV) -> T {
    if out.is_panic() {
        return tm::FALSE;
    }
    let f = inp.at(0).oh();
    let d = out.at(0).oh();
    tm::and(vec![raw_ff_eq(&d.s, &f.t), raw_ff_eq(&d.t, &f.s), raw_h_eq(&d.h, &f.h), raw_oh_eq(out.at(1).oh(), f)])
}
fn oracle_dagger_tensor(_inp: &PV, out: &PV) -> T {
    if out.is_panic() {
        return tm::FALSE;
    }
    raw_oh_eq(out.at(0).oh(), out.at(1).oh())
}
fn oracle_dagger_compose(_inp: &PV, out: &PV) -> T {
    if out.is_panic() {
        return tm::FALSE;
    }
    super::c03::iso_opts(out.at(0), out.at(1))
}
/// a finite function with `n` entries and a symbolic codomain in 0..=tmax (entries < codomain)
fn gen_ff_symtarget(n: usize, tmax: usize, name: &str) -> RawFF {
    let target = fresh(&format!("{}T", name), iw(), Some(tmax as u64 + 1));
    let table: Vec<T> = (0..n).map(|_| fresh(name, iw(), Some(tmax as u64 + 1))).collect();
    for t in &table {
        assume(tm::ult(*t, target));
    }
    RawFF { table, target }
}
fn gen_ff(n: usize, target: usize, name: &str) -> RawFF {
    RawFF { table: gen_idx(n, target, name), target: ci(target) }
}
fn discrete_plain(s: &RawFF, t: &RawFF, w: &[T]) -> Plain {
    Plain { n: w.len(), alive: vec![tm::TRUE; w.len()], lab: w.to_vec(), s: s.table.clone(), t: t.table.clone(), edges: vec![] }
}
fn oracle_spider(inp: &PV, out: &PV) -> T {
    if out.is_panic() {
        return tm::FALSE;
    }
    let (s, t, w) = (inp.at(0).ff(), inp.at(1).ff(), inp.at(2).ts());
    let ok = tm::and2(tm::eq(s.target, ci(w.len())), tm::eq(t.target, ci(w.len())));
    let one = |o: &PV| match o.some() {
        None => tm::not(ok),
        Some(r) => {
            let r = r.oh();
            tm::and(vec![ok, wf_oh(r), raw_ff_eq(&r.s, s), raw_ff_eq(&r.t, t), all_eq(&r.h.w, &w), tm::bconst(r.h.x.is_empty() && r.h.s.vals.is_empty() && r.h.t.vals.is_empty())])
        }
    };
    tm::and(vec![one(out.at(0)), one(out.at(1))])
}
fn oracle_half(inp: &PV, out: &PV) -> T {
    if out.is_panic() {
        return tm::FALSE;
    }
    let (s, w) = (inp.at(0).ff(), inp.at(1).ts());
    let ok = tm::eq(s.target, ci(w.len()));
    match (out.at(0).some(), out.at(1).some()) {
        (None, None) => tm::not(ok),
        (Some(a), Some(b)) => tm::and(vec![ok, raw_oh_eq(a.oh(), b.oh())]),
        _ => tm::FALSE,
    }
}
fn oracle_fusion(inp: &PV, out: &PV) -> T {
    if out.is_panic() {
        return tm::FALSE;
    }
    let p = discrete_plain(inp.at(0).ff(), inp.at(1).ff(), &inp.at(2).ts());
    let q = discrete_plain(inp.at(3).ff(), inp.at(4).ff(), &inp.at(5).ts());
    let types_eq = types_equal(&p, &p.t, &q, &q.s);
    match out.at(0).some() {
        None => tm::not(types_eq),
        Some(r) => match super::c01::plain_checked(r.oh()) {
            None => tm::FALSE,
            Some(pr) => tm::and(vec![types_eq, tm::bconst(pr.edges.is_empty()), out.at(1).t(), iso(&pushout(&p, &q), &pr)]),
        },
    }
}
fn oracle_id_twist(inp: &PV, out: &PV) -> T {
    if out.is_panic() {
        return tm::FALSE;
    }
    let _ = inp;
    let some = |o: &PV| PV::Some(Box::new(o.clone()));
    tm::and(vec![super::c03::iso_opts(&some(out.at(0)), out.at(1)), super::c03::iso_opts(&some(out.at(2)), out.at(3))])
}

pub fn jobs(tier: Tier, seed: u64) -> Vec<Job> {
    let per_job = Duration::from_secs(match tier {
        Tier::Quick => 60,
        Tier::Thorough => 600,
    });
    let cfg = base_cfg(tier);
    let mut groups: Vec<Vec<(bool, Case)>> = vec![];
    let (db, pb, lm) = match tier {
        Tier::Quick => (shapes(2, 1, 2, 2, 2, 2), shapes(2, 1, 1, 1, 1, 1), 2usize),
        Tier::Thorough => (shapes(3, 2, 3, 3, 2, 2), shapes(2, 2, 2, 2, 2, 2), 3usize),
    };
    let mut g1 = vec![];
    for f in db.iter().cloned() {
        g1.push((false, crate::case!(format!("dagger {}", f.show()), move || PV::List(vec![PV::OH(gen_oh(&f, "f"))]), c04_dagger, oracle_dagger, 4)));
    }
    groups.push(g1);
    let mut pairs = vec![];
    for f in &pb {
        for g in &pb {
            pairs.push((*f, *g));
        }
    }
    Rng::new(seed).shuffle(&mut pairs);
    let mut g2 = vec![];
    let mut g3 = vec![];
    for (f, g) in pairs {
        g2.push((false, crate::case!(format!("dagger-tensor {} {}", f.show(), g.show()), move || PV::List(vec![PV::OH(gen_oh(&f, "f")), PV::OH(gen_oh(&g, "g"))]), c04_dagger_tensor, oracle_dagger_tensor, 1)));
        if f.b == g.a {
            let gen = move || {
                let (rf, rg) = (gen_oh(&f, "f"), gen_oh(&g, "g"));
                super::c03::composable(&rf, &rg);
                PV::List(vec![PV::OH(rf), PV::OH(rg)])
            };
            g3.push((false, crate::case!(format!("dagger-compose {} {}", f.show(), g.show()), gen, c04_dagger_compose, oracle_dagger_compose, 1)));
        }
    }
    groups.push(g2);
    groups.push(g3);
    // spiders: accept/reject with symbolic codomains
    let mut g4 = vec![];
    for n in 0..=lm {
        for a in 0..=lm {
            for b in 0..=lm {
                let gen = move || PV::List(vec![PV::FF(gen_ff_symtarget(a, lm + 1, "s")), PV::FF(gen_ff_symtarget(b, lm + 1, "t")), PV::of_ts(&gen_labels(n, "w"))]);
                g4.push((true, crate::case!(format!("spider accept/reject |w|={} |s|={} |t|={}", n, a, b), gen, c04_spider, oracle_spider, 6)));
            }
            let gen = move || PV::List(vec![PV::FF(gen_ff_symtarget(a, lm + 1, "s")), PV::of_ts(&gen_labels(n, "w"))]);
            g4.push((true, crate::case!(format!("half_spider |w|={} |s|={}", n, a), gen, c04_half_spider, oracle_half, 2)));
        }
    }
    for a in 0..=lm {
        for b in 0..=lm {
            let gen = move || PV::List(vec![PV::of_ts(&gen_labels(a, "a")), PV::of_ts(&gen_labels(b, "b"))]);
            g4.push((true, crate::case!(format!("identity/twist are spiders |a|={} |b|={}", a, b), gen, c04_id_twist_spiders, oracle_id_twist, 2)));
        }
    }
    groups.push(g4);
    // fusion
    let mut g5 = vec![];
    let mut fus = vec![];
    for n1 in 0..=lm {
        for n2 in 0..=lm {
            for a in 0..=lm.min(2) {
                for m in 0..=lm {
                    for b in 0..=lm.min(2) {
                        if (n1 == 0 && (a > 0 || m > 0)) || (n2 == 0 && (m > 0 || b > 0)) {
                            continue;
                        }
                        fus.push((n1, n2, a, m, b));
                    }
                }
            }
        }
    }
    Rng::new(seed ^ 5).shuffle(&mut fus);
    fus.sort_by_key(|(n1, n2, a, m, b)| !(*n1 == lm && *n2 == lm && *m == lm) as u8 + ((*a + *b) > 2) as u8);
    for (n1, n2, a, m, b) in fus {
        let gen = move || {
            let w1 = gen_labels(n1, "w");
            let w2 = gen_labels(n2, "v");
            let (s1, t1) = (gen_ff(a, n1, "s"), gen_ff(m, n1, "t"));
            let (s2, t2) = (gen_ff(m, n2, "p"), gen_ff(b, n2, "q"));
            PV::List(vec![PV::FF(s1), PV::FF(t1), PV::of_ts(&w1), PV::FF(s2), PV::FF(t2), PV::of_ts(&w2)])
        };
        g5.push((n1 + n2 <= 3, crate::case!(format!("fusion |w|={} |w'|={} legs {}-{}-{}", n1, n2, a, m, b), gen, c04_fusion, oracle_fusion, 4)));
    }
    groups.push(g5);
    // the Vec backend's connected components (the gluing step of this property when run on the Vec backend)
    let mut out = super::c07::conformance_jobs(tier, &[3, 5]);
    for grp in groups.iter_mut() {
        grp.sort_by_key(|(m, _)| !*m);
        grp.reverse();
    }
    loop {
        let mut any = false;
        for grp in groups.iter_mut() {
            if let Some((must, c)) = grp.pop() {
                any = true;
                out.push(case_job(c, cfg.clone(), per_job, must && tier == Tier::Quick));
            }
        }
        if !any {
            break;
        }
    }
    // lax half: constructors, spiders, dagger (dagger laws and fusion for lax diagrams are decided with C10's commutation jobs)
    out.extend(super::lax::c04_lax_jobs(tier, seed));
    out.extend(super::lax::c10_jobs(tier, seed).into_iter().filter(|j| j.name.starts_with("strictification commutes")).take(if tier == Tier::Quick { 300 } else { 3000 }));
    out
}
