//! C17 — acyclicity, monogamy and degree queries decide their definitions, totally (both arithmetic profiles).
use super::*;
use crate::explore::Profile;
use crate::plain::*;
use crate::runner::*;
use crate::term::{self as tm, T};
use std::time::Duration;

pub fn def() -> CheckDef {
    CheckDef {
        id: "C17",
        functions: &[
            "strict::OpenHypergraph::{is_acyclic,is_monogamous}",
            "strict::Hypergraph::{is_acyclic,in_degree,out_degree}",
            "strict::graph::{node_adjacency,converse,kahn,indegree,dense_relative_indegree,sparse_relative_indegree,filter,zero}",
            "IndexedCoproduct::{flatmap,indexed_values,map_indexes}, FiniteFunction::injections",
        ],
        bounds_quick: "W<=3 nodes, X<=2 hyperedges, S,T<=3 incidences, interfaces <=2; both arithmetic profiles (dev: overflow panics, at width 16; release: wrapping, at width 64)",
        bounds_thorough: "W<=4, X<=3, S,T<=4, interfaces <=3; both profiles",
        jobs,
        budget_s: (170, 1500),
    }
}

/// occurrences of node u in a list of references
fn occ(refs: &[T], u: usize) -> T {
    tm::count(&refs.iter().map(|r| tm::eq(*r, ci(u))).collect::<Vec<_>>(), crate::explore::iw())
}

pub fn node_reach(p: &Plain) -> Vec<Vec<T>> {
    closure_sq(
        p.n,
        |u, v| {
            tm::or(
                p.edges
                    .iter()
                    .map(|e| tm::and2(tm::or(e.src.iter().map(|s| tm::eq(*s, ci(u))).collect()), tm::or(e.tgt.iter().map(|t| tm::eq(*t, ci(v))).collect())))
                    .collect(),
            )
        },
        false,
    )
}

fn oracle_acyclic(inp: &PV, out: &PV) -> T {
    if out.is_panic() {
        return tm::FALSE;
    }
    let p = plain_of(inp.at(0).oh());
    let reach = node_reach(&p);
    let acyclic = tm::and((0..p.n).map(|u| tm::not(reach[u][u])).collect());
    tm::and(vec![tm::iff(out.at(0).t(), acyclic), tm::iff(out.at(1).t(), acyclic)])
}

/// the definition of monogamy, on the plain model
pub fn monogamous_formula(p: &Plain) -> T {
    let all_src: Vec<T> = p.edges.iter().flat_map(|e| e.src.iter().cloned()).collect();
    let all_tgt: Vec<T> = p.edges.iter().flat_map(|e| e.tgt.iter().cloned()).collect();
    let one = ci(1);
    let zero = ci(0);
    let mut cs = vec![];
    // interface maps injective
    for l in [&p.s, &p.t] {
        for i in 0..l.len() {
            for j in 0..i {
                cs.push(tm::ne(l[i], l[j]));
            }
        }
    }
    for u in 0..p.n {
        let is_in = tm::or(p.s.iter().map(|r| tm::eq(*r, ci(u))).collect());
        let is_out = tm::or(p.t.iter().map(|r| tm::eq(*r, ci(u))).collect());
        let indeg = occ(&all_tgt, u);
        let outdeg = occ(&all_src, u);
        // in-degree 1 (and not an input), or in-degree 0 and an input  (degree + interface count = 1); dead nodes are exempt
        cs.push(tm::implies(p.alive[u], tm::or2(tm::and2(tm::eq(indeg, one), tm::not(is_in)), tm::and2(tm::eq(indeg, zero), is_in))));
        cs.push(tm::implies(p.alive[u], tm::or2(tm::and2(tm::eq(outdeg, one), tm::not(is_out)), tm::and2(tm::eq(outdeg, zero), is_out))));
    }
    tm::and(cs)
}
fn oracle_monogamous(inp: &PV, out: &PV) -> T {
    if out.is_panic() {
        return tm::FALSE;
    }
    let p = plain_of(inp.at(0).oh());
    tm::iff(out.t(), monogamous_formula(&p))
}

fn oracle_degrees(inp: &PV, out: &PV) -> T {
    if out.is_panic() {
        return tm::FALSE;
    }
    let p = plain_of(inp.at(0).oh());
    let v = inp.at(1).t();
    let all_src: Vec<T> = p.edges.iter().flat_map(|e| e.src.iter().cloned()).collect();
    let all_tgt: Vec<T> = p.edges.iter().flat_map(|e| e.tgt.iter().cloned()).collect();
    let w = crate::explore::iw();
    let indeg = tm::count(&all_tgt.iter().map(|r| tm::eq(*r, v)).collect::<Vec<_>>(), w);
    let outdeg = tm::count(&all_src.iter().map(|r| tm::eq(*r, v)).collect::<Vec<_>>(), w);
    tm::and(vec![tm::eq(out.at(0).t(), indeg), tm::eq(out.at(1).t(), outdeg)])
}

pub fn jobs(tier: Tier, seed: u64) -> Vec<Job> {
    let per_job = Duration::from_secs(match tier {
        Tier::Quick => 60,
        Tier::Thorough => 600,
    });
    let (wm, xm, im, bm) = match tier {
        Tier::Quick => (3, 2, 3, 2),
        Tier::Thorough => (4, 3, 4, 3),
    };
    let mut cases: Vec<(bool, Case)> = vec![];
    // acyclicity and degrees do not look at the interfaces: empty interfaces only
    let mut plain_shapes = shapes(wm, xm, im, im, 0, 0);
    plain_shapes.sort_by_key(|s| (s.x, s.s + s.t, s.w));
    for sh in plain_shapes {
        let must = sh.w <= 3 && sh.x <= 2 && sh.s <= 3 && sh.t <= 3;
        cases.push((must, crate::case!(format!("is_acyclic {}", sh.show()), move || PV::List(vec![PV::OH(gen_oh(&sh, "f"))]), c17_acyclic, oracle_acyclic, 2)));
        if sh.w > 0 {
            cases.push((
                must,
                crate::case!(
                    format!("degrees {}", sh.show()),
                    move || PV::List(vec![PV::OH(gen_oh(&sh, "f")), PV::T(crate::explore::fresh("v", crate::explore::iw(), Some(sh.w as u64)))]),
                    c17_degrees,
                    oracle_degrees,
                    2
                ),
            ));
        }
    }
    // monogamy looks at everything
    let mut mono = shapes(wm, xm, im.min(3), im.min(3), bm, bm);
    Rng::new(seed).shuffle(&mut mono);
    mono.sort_by_key(|s| !(s.w <= 2 && s.s <= 2 && s.t <= 2));
    for sh in mono {
        let must = sh.w <= 2 && sh.x <= 1 && sh.s <= 2 && sh.t <= 2;
        cases.push((must, crate::case!(format!("is_monogamous {}", sh.show()), move || PV::List(vec![PV::OH(gen_oh(&sh, "f"))]), c17_monogamous, oracle_monogamous, 1)));
    }
    let mut out = super::c07::conformance_jobs(tier, &[0, 1, 2, 4]);
    for (must, case) in cases {
        // dev profile (overflow panics) at width 16
        out.push(case_job(Case { name: format!("{} [dev]", case.name), ..case.clone() }, base_cfg(tier), per_job, must && tier == Tier::Quick));
        // release profile: wrapping arithmetic, full 64-bit indices
        let mut rel = base_cfg(tier);
        rel.profile = Profile::Release;
        rel.iw = 64;
        out.push(case_job(Case { name: format!("{} [release]", case.name), ..case }, rel, per_job, false));
    }
    out
}
