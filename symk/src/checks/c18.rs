//! C18 — hypergraph morphism validation, monomorphism and convexity tests are exact.
use super::c06::gen_ff_sym;
use super::*;
use crate::plain::*;
use crate::runner::*;
use crate::term::{self as tm, T};
use std::time::Duration;

pub fn def() -> CheckDef {
    CheckDef {
        id: "C18",
        functions: &["strict::hypergraph::arrow::HypergraphArrow::{new,validate,is_monomorphism,is_convex_subgraph}", "successors, filter_unvisited", "strict::graph::{node_adjacency,node_adjacency_from_incidence,sparse_relative_indegree,converse}", "IndexedCoproduct::{map_values,map_indexes,flatmap}", "FiniteFunction::is_injective"],
        bounds_quick: "source hypergraph W<=2, X<=2, S,T<=2; target W<=3, X<=2, S,T<=2; node and edge maps with symbolic tables and symbolic codomains (typed or mistyped)",
        bounds_thorough: "target W<=4, X<=3, S,T<=3; source W<=3, X<=2",
        jobs,
        budget_s: (170, 1500),
    }
}

fn hplain(h: &RawH) -> Plain {
    plain_of(&RawOH { s: RawFF { table: vec![], target: ci(h.w.len()) }, t: RawFF { table: vec![], target: ci(h.w.len()) }, h: h.clone() })
}

fn oracle(inp: &PV, out: &PV) -> T {
    if out.is_panic() {
        return tm::FALSE;
    }
    let (g, h) = (hplain(inp.at(0).h()), hplain(inp.at(1).h()));
    let (w, x) = (inp.at(2).ff(), inp.at(3).ff());
    let typed_w = tm::eq(w.target, ci(h.n));
    let typed_x = tm::eq(x.target, ci(h.edges.len()));
    // label preservation (guarded by typing so that selections are in range)
    let nat_w = if h.n == 0 { tm::bconst(g.n == 0) } else { tm::and((0..g.n).map(|u| tm::eq(g.lab[u], tm::select(&h.lab, w.table[u]))).collect()) };
    let hx: Vec<T> = h.edges.iter().map(|e| e.lab).collect();
    let nat_x = if hx.is_empty() { tm::bconst(g.edges.is_empty()) } else { tm::and((0..g.edges.len()).map(|e| tm::eq(g.edges[e].lab, tm::select(&hx, x.table[e]))).collect()) };
    // incidence preservation: the image edge has the same arity and its lists are the images of the lists
    let inc = |src: bool| {
        let mut cs = vec![];
        for (e, ge) in g.edges.iter().enumerate() {
            let gl = if src { &ge.src } else { &ge.tgt };
            let mut alts = vec![];
            for (k, he) in h.edges.iter().enumerate() {
                let hl = if src { &he.src } else { &he.tgt };
                if hl.len() != gl.len() {
                    continue;
                }
                let mut c = vec![tm::eq(x.table[e], ci(k))];
                for (a, b) in gl.iter().zip(hl.iter()) {
                    c.push(tm::eq(tm::select(&w.table, *a), *b));
                }
                alts.push(tm::and(c));
            }
            cs.push(tm::or(alts));
        }
        tm::and(cs)
    };
    let (nat_s, nat_t) = (inc(true), inc(false));
    let morphism = tm::and(vec![typed_w, typed_x, nat_w, nat_x, nat_s, nat_t]);
    match out {
        PV::Tag(tag, rest) => match tag.as_str() {
            // a rejection names a condition that actually fails
            "TypeMismatchW" => tm::not(typed_w),
            "TypeMismatchX" => tm::not(typed_x),
            "NotNaturalW" => tm::not(tm::and2(typed_w, nat_w)),
            "NotNaturalX" => tm::not(tm::and2(typed_x, nat_x)),
            "NotNaturalS" => tm::not(tm::and(vec![typed_w, typed_x, nat_s])),
            "NotNaturalT" => tm::not(tm::and(vec![typed_w, typed_x, nat_t])),
            "Ok" => {
                let inj = |f: &RawFF| {
                    let mut c = vec![];
                    for i in 0..f.table.len() {
                        for j in 0..i {
                            c.push(tm::ne(f.table[i], f.table[j]));
                        }
                    }
                    tm::and(c)
                };
                let mono = tm::and2(inj(w), inj(x));
                // convexity: no directed path between two image nodes that uses an edge outside the image
                let n = h.n;
                let in_img_edge: Vec<T> = (0..h.edges.len()).map(|k| tm::or(x.table.iter().map(|v| tm::eq(*v, ci(k))).collect())).collect();
                let in_img_node: Vec<T> = (0..n).map(|u| tm::or(w.table.iter().map(|v| tm::eq(*v, ci(u))).collect())).collect();
                let step = |u: usize, v: usize, which: u8| {
                    tm::or(
                        h.edges
                            .iter()
                            .enumerate()
                            .map(|(k, e)| {
                                let conn = tm::and2(tm::or(e.src.iter().map(|s| tm::eq(*s, ci(u))).collect()), tm::or(e.tgt.iter().map(|t| tm::eq(*t, ci(v))).collect()));
                                match which {
                                    0 => tm::and2(conn, in_img_edge[k]),
                                    1 => tm::and2(conn, tm::not(in_img_edge[k])),
                                    _ => conn,
                                }
                            })
                            .collect(),
                    )
                };
                let r_in = closure_sq(n, |u, v| step(u, v, 0), true);
                let r_all = closure_sq(n, |u, v| step(u, v, 2), true);
                let mut bad = vec![];
                for u in 0..n {
                    for v in 0..n {
                        for a in 0..n {
                            for b in 0..n {
                                bad.push(tm::and(vec![in_img_node[u], in_img_node[v], r_in[u][a], step(a, b, 1), r_all[b][v]]));
                            }
                        }
                    }
                }
                let convex = tm::and2(mono, tm::not(tm::or(bad)));
                tm::and(vec![morphism, tm::iff(rest[0].t(), mono), tm::iff(rest[1].t(), convex), rest[2].t()])
            }
            _ => tm::FALSE,
        },
        _ => tm::FALSE,
    }
}

pub fn jobs(tier: Tier, seed: u64) -> Vec<Job> {
    let per_job = Duration::from_secs(match tier {
        Tier::Quick => 60,
        Tier::Thorough => 600,
    });
    let cfg = base_cfg(tier);
    let (src_box, tgt_box, tm_) = match tier {
        Tier::Quick => (shapes(2, 2, 2, 2, 0, 0), shapes(3, 2, 2, 2, 0, 0), 3usize),
        Tier::Thorough => (shapes(3, 2, 2, 2, 0, 0), shapes(4, 3, 3, 3, 0, 0), 4usize),
    };
    let mut pairs = vec![];
    for g in &src_box {
        for h in &tgt_box {
            pairs.push((*g, *h));
        }
    }
    Rng::new(seed).shuffle(&mut pairs);
    pairs.sort_by_key(|(g, h)| (g.w + g.x + h.w + h.x + h.s + h.t) / 3);
    let mut out = super::c07::conformance_jobs(tier, &[0, 1, 2, 4]);
    for (i, (g, h)) in pairs.into_iter().enumerate() {
        let gen = move || PV::List(vec![PV::H(gen_h(&g, "g")), PV::H(gen_h(&h, "h")), PV::FF(gen_ff_sym(g.w, tm_, "w")), PV::FF(gen_ff_sym(g.x, tm_, "x"))]);
        out.push(case_job(crate::case!(format!("arrow src={} tgt={}", g.show(), h.show()), gen, c18_arrow, oracle, 8), cfg.clone(), per_job, i < 300 && tier == Tier::Quick));
    }
    out
}
