//! C11 — imperative editing of lax diagrams refines a plain list model; serde JSON round trip (lax tier).
use super::*;
use crate::explore::{choose, fresh, lw};
use crate::plain::*;
use crate::runner::*;
use crate::term::{self as tm, T};
use std::time::Duration;

pub fn def() -> CheckDef {
    CheckDef {
        id: "C11",
        functions: &["lax::Hypergraph::{new_node,new_edge,new_operation,add_edge_source,add_edge_target,unify,delete_nodes,delete_nodes_witness,delete_edges,delete_edge,with_nodes,map_nodes,with_edges,map_edges}", "lax::OpenHypergraph::{new_node,new_edge,new_operation,add_edge_source,add_edge_target,unify,delete_nodes,delete_edges,with_nodes,map_nodes,with_edges,map_edges}", "serde::{Serialize,Deserialize} derives of lax::{OpenHypergraph,Hypergraph,Hyperedge,NodeId,EdgeId} through serde_json"],
        bounds_quick: "one builder call from an arbitrary state (every state is reachable through the public fields, so one step covers histories): states with <=3 nodes, <=3 hyperedges (arities <=2), <=2 pending pairs, interfaces <=1..2; identifier arguments (deletion lists of length <=3) enumerated including duplicates and one out-of-range value; labels symbolic",
        bounds_thorough: "states with <=4 nodes, <=3 hyperedges; deletion lists of length <=3",
        jobs,
        budget_s: (90, 1500),
    }
}

fn idv(t: T) -> usize {
    RawLax::id(t)
}
fn state_shapes(tier: Tier) -> Vec<LaxShape> {
    let mut v = vec![];
    let nmax = if tier == Tier::Quick { 3 } else { 4 };
    for n in 0..=nmax {
        for ar in [vec![], vec![(1usize, 1usize)], vec![(2, 1)], vec![(1, 0), (0, 1)], vec![(1, 1), (1, 1)], vec![(0, 0), (1, 0), (0, 1)]] {
            for q in 0..=2usize {
                for (a, b) in [(0usize, 0usize), (1, 1), (2, 0)] {
                    let sh = LaxShape::new(n, &ar, q, a, b);
                    if sh.inhabited() && sh.refs() <= (if tier == Tier::Quick { 6 } else { 8 }) {
                        v.push(sh);
                    }
                }
            }
        }
    }
    v.sort_by_key(|s| s.refs());
    v
}

fn oracle_add(inp: &PV, out: &PV) -> T {
    if out.is_panic() {
        return tm::FALSE;
    }
    let st = inp.at(0).lax();
    let (l, x) = (inp.at(1).t(), inp.at(2).t());
    let (src, tgt) = (inp.at(3).ts(), inp.at(4).ts());
    let (sl, tl) = (inp.at(5).ts(), inp.at(6).ts());
    let n = st.nodes.len();
    let e = st.edges.len();
    // new_node
    let mut m1 = st.clone();
    m1.nodes.push(l);
    // new_edge
    let mut m2 = st.clone();
    m2.edges.push(x);
    m2.adj.push((src.clone(), tgt.clone()));
    // new_operation: fresh nodes for the sources then the targets, one new hyperedge on them
    let mut m3 = st.clone();
    let s_ids: Vec<T> = (n..n + sl.len()).map(ci).collect();
    let t_ids: Vec<T> = (n + sl.len()..n + sl.len() + tl.len()).map(ci).collect();
    m3.nodes.extend(sl.iter().cloned());
    m3.nodes.extend(tl.iter().cloned());
    m3.edges.push(x);
    m3.adj.push((s_ids.clone(), t_ids.clone()));
    // hypergraph level: new_node then new_edge
    let mut m4 = st.clone();
    m4.s = vec![];
    m4.t = vec![];
    m4.nodes.push(l);
    m4.edges.push(x);
    m4.adj.push((src.clone(), tgt.clone()));
    tm::and(vec![
        tm::eq(out.at(0).at(0).t(), ci(n)),
        raw_lax_eq(out.at(0).at(1).lax(), &m1),
        tm::eq(out.at(1).at(0).t(), ci(e)),
        raw_lax_eq(out.at(1).at(1).lax(), &m2),
        tm::eq(out.at(2).at(0).t(), ci(e)),
        all_eq(&out.at(2).at(1).ts(), &s_ids),
        all_eq(&out.at(2).at(2).ts(), &t_ids),
        raw_lax_eq(out.at(2).at(3).lax(), &m3),
        tm::eq(out.at(3).at(0).t(), ci(n)),
        tm::eq(out.at(3).at(1).t(), ci(e)),
        raw_lax_eq(out.at(3).at(2).lax(), &m4),
    ])
}
fn oracle_edge_edit(inp: &PV, out: &PV) -> T {
    let st = inp.at(0).lax();
    let e = idv(inp.at(1).t());
    let l = inp.at(2).t();
    if e >= st.adj.len() {
        // out-of-range edge identifier: the call does not return
        return tm::bconst(out.is_panic());
    }
    if out.is_panic() {
        return tm::FALSE;
    }
    let n = st.nodes.len();
    let mut a = st.clone();
    a.nodes.push(l);
    a.adj[e].0.push(ci(n));
    let mut b = st.clone();
    b.nodes.push(l);
    b.adj[e].1.push(ci(n));
    tm::and(vec![tm::eq(out.at(0).t(), ci(n)), raw_lax_eq(out.at(1).lax(), &a), tm::eq(out.at(2).t(), ci(n)), raw_lax_eq(out.at(3).lax(), &b)])
}
fn oracle_unify(inp: &PV, out: &PV) -> T {
    if out.is_panic() {
        return tm::FALSE;
    }
    let mut m = inp.at(0).lax().clone();
    m.quot.push((inp.at(1).t(), inp.at(2).t()));
    raw_lax_eq(out.lax(), &m)
}
/// list model of node deletion; returns (new state, witness)
fn model_delete_nodes(st: &RawLax, ids: &[usize]) -> (RawLax, Vec<Option<usize>>) {
    let n = st.nodes.len();
    let mut new_index: Vec<Option<usize>> = vec![None; n];
    let mut next = 0;
    for u in 0..n {
        if !ids.contains(&u) {
            new_index[u] = Some(next);
            next += 1;
        }
    }
    let keep = |xs: &[T]| xs.iter().filter_map(|t| new_index[idv(*t)].map(ci)).collect::<Vec<T>>();
    let m = RawLax {
        nodes: (0..n).filter(|u| new_index[*u].is_some()).map(|u| st.nodes[u]).collect(),
        edges: st.edges.clone(),
        adj: st.adj.iter().map(|(a, b)| (keep(a), keep(b))).collect(),
        quot: st.quot.iter().filter_map(|(a, b)| match (new_index[idv(*a)], new_index[idv(*b)]) {
            (Some(x), Some(y)) => Some((ci(x), ci(y))),
            _ => None,
        }).collect(),
        s: keep(&st.s),
        t: keep(&st.t),
    };
    (m, new_index)
}
fn oracle_delete_nodes(inp: &PV, out: &PV) -> T {
    let st = inp.at(0).lax();
    let ids: Vec<usize> = inp.at(1).ts().iter().map(|t| idv(*t)).collect();
    if ids.iter().any(|i| *i >= st.nodes.len()) {
        return tm::bconst(out.is_panic());
    }
    if out.is_panic() {
        return tm::FALSE;
    }
    let (m, wit) = model_delete_nodes(st, &ids);
    let mut mh = m.clone();
    mh.s = vec![];
    mh.t = vec![];
    let got_wit: Vec<Option<usize>> = out.at(1).list().iter().map(|p| p.some().map(|v| idv(v.t()))).collect();
    tm::and(vec![raw_lax_eq(out.at(0).lax(), &m), tm::bconst(got_wit == wit), raw_lax_eq(out.at(2).lax(), &mh), raw_lax_eq(out.at(3).lax(), &mh)])
}
fn oracle_delete_edges(inp: &PV, out: &PV) -> T {
    let st = inp.at(0).lax();
    let ids: Vec<usize> = inp.at(1).ts().iter().map(|t| idv(*t)).collect();
    if ids.iter().any(|i| *i >= st.edges.len()) {
        return tm::bconst(out.is_panic());
    }
    if out.is_panic() {
        return tm::FALSE;
    }
    let mut m = st.clone();
    let keep: Vec<usize> = (0..st.edges.len()).filter(|e| !ids.contains(e)).collect();
    m.edges = keep.iter().map(|e| st.edges[*e]).collect();
    m.adj = keep.iter().map(|e| st.adj[*e].clone()).collect();
    let mut mh = m.clone();
    mh.s = vec![];
    mh.t = vec![];
    tm::and(vec![raw_lax_eq(out.at(0).lax(), &m), raw_lax_eq(out.at(1).lax(), &mh)])
}
fn oracle_relabel(inp: &PV, out: &PV) -> T {
    if out.is_panic() {
        return tm::FALSE;
    }
    let st = inp.at(0).lax();
    let c = inp.at(1).t();
    let with = |f: &dyn Fn(&mut RawLax)| {
        let mut m = st.clone();
        f(&mut m);
        m
    };
    let rev_n = with(&|m| m.nodes.reverse());
    let const_n = with(&|m| m.nodes = vec![c; m.nodes.len()]);
    let rev_e = with(&|m| m.edges.reverse());
    let const_e = with(&|m| m.edges = vec![c; m.edges.len()]);
    let some_is = |o: &PV, m: &RawLax| match o.some() {
        None => tm::FALSE,
        Some(r) => raw_lax_eq(r.lax(), m),
    };
    let none = |o: &PV| tm::bconst(o.some().is_none());
    tm::and(vec![
        some_is(out.at(0), &rev_n),
        none(out.at(1)),
        // popping from an empty list keeps the length: accepted unchanged
        if st.nodes.is_empty() { some_is(out.at(2), st) } else { none(out.at(2)) },
        raw_lax_eq(out.at(3).lax(), st),
        raw_lax_eq(out.at(4).lax(), &const_n),
        some_is(out.at(5), &rev_e),
        none(out.at(6)),
        raw_lax_eq(out.at(7).lax(), &const_e),
    ])
}

fn oracle_serde(inp: &PV, out: &PV) -> T {
    if out.is_panic() {
        return tm::FALSE;
    }
    let st = inp.at(0).lax();
    let mut h = st.clone();
    h.s = vec![];
    h.t = vec![];
    tm::and(vec![raw_lax_eq(out.at(0).lax(), st), out.at(1).t(), raw_lax_eq(out.at(2).lax(), &h)])
}

pub fn jobs(tier: Tier, _seed: u64) -> Vec<Job> {
    let per_job = Duration::from_secs(if tier == Tier::Quick { 60 } else { 600 });
    let cfg = base_cfg(tier);
    let mut out = vec![];
    // identifier lists of length 3: a repeated identifier with another one between its occurrences
    let dl = 3usize;
    for sh in state_shapes(tier) {
        let lab = |name: &str| fresh(name, lw(), None);
        let must = tier == Tier::Quick;
        {
            let sh2 = sh.clone();
            let gen = move || {
                let st = gen_lax(&sh2, "s");
                let n = sh2.n;
                // interface of the new edge: <=2 source and <=1 target references to existing nodes
                let (ks, kt) = if n == 0 { (0, 0) } else { (choose(3), choose(2)) };
                let ids = |k: usize| (0..k).map(|_| ci(choose(n))).collect::<Vec<T>>();
                let (src, tgt) = (ids(ks), ids(kt));
                let (a, b) = (choose(3), choose(3));
                PV::List(vec![PV::Lax(st), PV::T(lab("l")), PV::T(lab("x")), PV::of_ts(&src), PV::of_ts(&tgt), PV::of_ts(&gen_labels(a, "sl")), PV::of_ts(&gen_labels(b, "tl"))])
            };
            if sh.refs() <= 4 {
                out.push(case_job(crate::case!(format!("new_node/new_edge/new_operation from {}", sh.show()), gen, c11_add, oracle_add, 11), cfg.clone(), per_job, must));
            }
        }
        {
            let sh2 = sh.clone();
            let gen = move || {
                let st = gen_lax(&sh2, "s");
                // edge identifier: every valid one and one out of range
                let e = choose(sh2.arities.len() + 1);
                PV::List(vec![PV::Lax(st), PV::T(ci(e)), PV::T(lab("l"))])
            };
            out.push(case_job(crate::case!(format!("add_edge_source/target from {}", sh.show()), gen, c11_edge_edit, oracle_edge_edit, 4), cfg.clone(), per_job, must));
        }
        if sh.n > 0 {
            let sh2 = sh.clone();
            let gen = move || PV::List(vec![PV::Lax(gen_lax(&sh2, "s")), PV::T(ci(choose(sh2.n))), PV::T(ci(choose(sh2.n)))]);
            out.push(case_job(crate::case!(format!("unify from {}", sh.show()), gen, c11_unify, oracle_unify, 1), cfg.clone(), per_job, must));
        }
        {
            let sh2 = sh.clone();
            let gen = move || {
                let st = gen_lax(&sh2, "s");
                let k = choose(dl + 1);
                // identifiers to delete: duplicates allowed, value n is out of range
                let ids: Vec<T> = (0..k).map(|_| ci(choose(sh2.n + 1))).collect();
                PV::List(vec![PV::Lax(st), PV::of_ts(&ids)])
            };
            let j = case_job(crate::case!(format!("delete_nodes/delete_nodes_witness from {}", sh.show()), gen, c11_delete_nodes, oracle_delete_nodes, 4), cfg.clone(), per_job, must);
            out.extend(split_by_choices(j, sh.n, if sh.refs() >= 6 { 1 } else { 0 }));
        }
        {
            let sh2 = sh.clone();
            let gen = move || {
                let st = gen_lax(&sh2, "s");
                let k = choose(dl + 1);
                let ids: Vec<T> = (0..k).map(|_| ci(choose(sh2.arities.len() + 1))).collect();
                PV::List(vec![PV::Lax(st), PV::of_ts(&ids)])
            };
            out.push(case_job(crate::case!(format!("delete_edges from {}", sh.show()), gen, c11_delete_edges, oracle_delete_edges, 2), cfg.clone(), per_job, must));
        }
        {
            let sh2 = sh.clone();
            let gen = move || PV::List(vec![PV::Lax(gen_lax(&sh2, "s"))]);
            out.push(case_job(crate::case!(format!("serde JSON round trip and field names from {}", sh.show()), gen, c11_serde, oracle_serde, 3), cfg.clone(), per_job, must && sh.refs() <= 5));
        }
        if sh.refs() <= 4 {
            let sh2 = sh.clone();
            let gen = move || PV::List(vec![PV::Lax(gen_lax(&sh2, "s")), PV::T(lab("c"))]);
            out.push(case_job(crate::case!(format!("with_nodes/map_nodes/with_edges/map_edges from {}", sh.show()), gen, c11_relabel, oracle_relabel, 8), cfg.clone(), per_job, must));
        }
    }
    out
}
