//! C07 (Engine S part) — the array primitives, called through the public array traits at BOTH backends,
//! against their element-wise contract. The symbolic run decides the contract for the SymKind model
//! (all inputs of the shape); on every path the Vec backend is run natively on the path's model and must
//! satisfy the contract and agree with the model. The generator forces one path per order/equality pattern
//! of the inputs, so the native runs cover every pattern (one representative each) — this part is
//! pattern-exhaustive sampling of VecArray; the bit-precise all-inputs claim for VecArray is Engine K's.
use super::*;
use crate::explore::{assume, branch, choose, fresh, iw};
use crate::plain::*;
use crate::runner::*;
use crate::term::{self as tm, T};
use std::time::Duration;

pub fn def() -> CheckDef {
    CheckDef {
        id: "C07",
        functions: &["Array/OrdArray/NaturalArray trait methods at VecKind (native, one representative per order/equality pattern) and at SymKind (symbolic): argsort, sort_by, sparse_bincount, bincount, zero, max, cumulative_sum, sum, repeat, segmented_arange, quot_rem, mul_constant_add, gather, scatter, scatter_assign, scatter_assign_constant, scatter_sub_assign, connected_components, +, usize + &array, concatenate"],
        bounds_quick: "value arrays of length <=5 over 0..6 (repeat/segmented_arange/quot_rem: <=4), index arrays of length <=3 over 0..4; every order/equality pattern of the value array and of the index arrays gets its own path",
        bounds_thorough: "value arrays of length <=6, index arrays of length <=4",
        jobs,
        budget_s: (60, 1200),
    }
}

/// one path per weak ordering of the values
fn force_patterns(xs: &[T]) {
    for i in 0..xs.len() {
        for j in 0..i {
            if !branch(tm::ult(xs[i], xs[j])) {
                let _ = branch(tm::eq(xs[i], xs[j]));
            }
        }
    }
}
fn is_perm(p: &[T], n: usize) -> T {
    let mut cs: Vec<T> = p.iter().map(|v| tm::ult(*v, ci(n))).collect();
    for i in 0..p.len() {
        for j in 0..i {
            cs.push(tm::ne(p[i], p[j]));
        }
    }
    tm::and(cs)
}
fn cnt(xs: &[T], v: T) -> T {
    tm::count(&xs.iter().map(|x| tm::eq(*x, v)).collect::<Vec<_>>(), iw())
}

fn oracle(inp: &PV, out: &PV) -> T {
    if out.is_panic() {
        return tm::FALSE;
    }
    let (xs, idx, ys) = (inp.at(0).ts(), inp.at(1).ts(), inp.at(2).ts());
    let (d, c) = (inp.at(3).t(), inp.at(4).t());
    let (base, idx2, keys4) = (inp.at(5).ts(), inp.at(6).ts(), inp.at(7).ts());
    let (n, m) = (xs.len(), idx.len());
    let group = tm::as_const(inp.at(8).t()).unwrap();
    let mut cs: Vec<T> = vec![];
    match group {
        0 => {
            // argsort: any permutation that sorts
            let p = out.at(0).ts();
            cs.push(tm::bconst(p.len() == n));
            cs.push(is_perm(&p, n));
            if n > 0 {
                for i in 1..p.len() {
                    cs.push(tm::ule(tm::select(&xs, p[i - 1]), tm::select(&xs, p[i])));
                }
            }
            // sparse bincount: each occurring value once, with its count, nothing else
            let (keys, counts) = (out.at(1).ts(), out.at(2).ts());
            cs.push(tm::bconst(keys.len() == counts.len()));
            for x in &xs {
                cs.push(tm::eq(cnt(&keys, *x), ci(1)));
            }
            for (k, cn) in keys.iter().zip(counts.iter()) {
                cs.push(tm::eq(*cn, cnt(&xs, *k)));
                cs.push(tm::ugt(*cn, ci(0)));
            }
            // bincount over 0..8
            let b = out.at(3).ts();
            cs.push(tm::bconst(b.len() == 8));
            for (v, bv) in b.iter().enumerate() {
                cs.push(tm::eq(*bv, cnt(&xs, ci(v))));
            }
            // zero: ascending indices of the zero entries
            let z = out.at(4).ts();
            let zeros: Vec<T> = xs.iter().map(|x| tm::eq(*x, ci(0))).collect();
            cs.push(tm::eq(ci(z.len()), tm::count(&zeros, iw())));
            for (k, zk) in z.iter().enumerate() {
                let mut alts = vec![];
                for i in 0..n {
                    alts.push(tm::and(vec![tm::eq(*zk, ci(i)), zeros[i], tm::eq(tm::count(&zeros[..i], iw()), ci(k))]));
                }
                cs.push(tm::or(alts));
            }
            // max, cumulative sum, sum
            match out.at(5).some() {
                None => cs.push(tm::bconst(n == 0)),
                Some(mx) => {
                    cs.push(tm::and(xs.iter().map(|x| tm::ule(*x, mx.t())).collect()));
                    cs.push(tm::or(xs.iter().map(|x| tm::eq(*x, mx.t())).collect()));
                }
            }
            let cum = out.at(6).ts();
            cs.push(tm::bconst(cum.len() == n + 1));
            if cum.len() == n + 1 {
                cs.push(tm::eq(cum[0], ci(0)));
                for i in 0..n {
                    cs.push(tm::eq(cum[i + 1], tm::add(cum[i], xs[i])));
                }
                cs.push(tm::eq(out.at(7).t(), cum[n]));
            }
            let (dbl, shifted) = (out.at(21).ts(), out.at(22).ts());
            cs.push(tm::bconst(dbl.len() == n && shifted.len() == n));
            if dbl.len() == n && shifted.len() == n {
                for i in 0..n {
                    cs.push(tm::eq(dbl[i], tm::add(xs[i], xs[i])));
                    cs.push(tm::eq(shifted[i], tm::add(xs[i], ci(n))));
                }
            }
        }
        4 => {
            // sort_by: the result is base reordered by SOME permutation that sorts the keys
            let sb = out.at(8).ts();
            cs.push(tm::bconst(sb.len() == 4));
            if sb.len() == 4 {
                let mut alts = vec![];
                for q in perms(4) {
                    let mut c2 = vec![];
                    for i in 0..4 {
                        c2.push(tm::eq(sb[i], base[q[i]]));
                        if i > 0 {
                            c2.push(tm::ule(keys4[q[i - 1]], keys4[q[i]]));
                        }
                    }
                    alts.push(tm::and(c2));
                }
                cs.push(tm::or(alts));
            }
        }
        1 => {
            // repeat(counts = xs, values = xs): total length = sum, segment i holds xs[i]; segmented_arange counts up inside each segment
            let rp = out.at(9).ts();
            let sa = out.at(10).ts();
            cs.push(tm::eq(ci(rp.len()), sum_terms(&xs)));
            cs.push(tm::eq(ci(sa.len()), sum_terms(&xs)));
            let mut off = vec![ci(0)];
            for i in 0..n {
                let nx = tm::add(off[i], xs[i]);
                off.push(nx);
            }
            for (pos, v) in rp.iter().enumerate() {
                let mut alts = vec![];
                for i in 0..n {
                    let inside = tm::and2(tm::ule(off[i], ci(pos)), tm::ult(ci(pos), off[i + 1]));
                    let mut a = vec![inside, tm::eq(*v, xs[i])];
                    if pos < sa.len() {
                        a.push(tm::eq(sa[pos], tm::sub(ci(pos), off[i])));
                    }
                    alts.push(tm::and(a));
                }
                cs.push(tm::or(alts));
            }
            // quot_rem
            let (q, r) = (out.at(11).ts(), out.at(12).ts());
            cs.push(tm::bconst(q.len() == n && r.len() == n));
            for i in 0..n.min(q.len()).min(r.len()) {
                cs.push(tm::eq(tm::add(tm::mul(q[i], d), r[i]), xs[i]));
                cs.push(tm::ult(r[i], d));
            }
        }
        2 => {
            let mca = out.at(13).ts();
            cs.push(tm::bconst(mca.len() == m));
            for i in 0..m.min(mca.len()) {
                cs.push(tm::eq(mca[i], tm::add(tm::mul(ys[i], c), ys[i])));
            }
            // gather, scatter (written slots hold the last value written), scatter_assign(_constant), scatter_sub_assign
            let g = out.at(14).ts();
            cs.push(tm::bconst(g.len() == m));
            for i in 0..m.min(g.len()) {
                cs.push(tm::eq(g[i], tm::select(&base, idx[i])));
            }
            let last_writer = |j: usize| -> Vec<T> { (0..m).map(|i| tm::and(std::iter::once(tm::eq(idx[i], ci(j))).chain((i + 1..m).map(|k| tm::ne(idx[k], ci(j)))).collect())).collect() };
            let (sc, asg, asgc, sub) = (out.at(15).ts(), out.at(16).ts(), out.at(17).ts(), out.at(18).ts());
            let shapes_ok = sc.len() == (if m == 0 { 0 } else { 4 }) && asg.len() == 4 && asgc.len() == 4 && sub.len() == 4;
            cs.push(tm::bconst(shapes_ok));
            if shapes_ok {
                for j in 0..4 {
                    let lw = last_writer(j);
                    let written = tm::or(lw.clone());
                    for i in 0..m {
                        if sc.len() == 4 {
                            cs.push(tm::implies(lw[i], tm::eq(sc[j], ys[i])));
                        }
                        cs.push(tm::implies(lw[i], tm::eq(asg[j], ys[i])));
                    }
                    cs.push(tm::implies(written, tm::eq(asgc[j], c)));
                    cs.push(tm::implies(tm::not(written), tm::and2(tm::eq(asg[j], base[j]), tm::eq(asgc[j], base[j]))));
                    // repeated indices accumulate
                    cs.push(tm::eq(sub[j], tm::sub(base[j], cnt(&idx, ci(j)))));
                }
            }
            let cat = out.at(23).ts();
            cs.push(tm::bconst(cat.len() == n + m));
            if cat.len() == n + m {
                for i in 0..n {
                    cs.push(tm::eq(cat[i], xs[i]));
                }
                for i in 0..m {
                    cs.push(tm::eq(cat[n + i], ys[i]));
                }
            }
        }
        3 | 5 => {
            // connected components over 4 (group 5: d) nodes with edges idx[i] -- idx2[i]: dense numbering, together iff connected
            let nn = if group == 3 { 4 } else { tm::as_const(d).expect("node count") as usize };
            let cc = out.at(19).ts();
            let k = out.at(20).t();
            cs.push(tm::bconst(cc.len() == nn));
            if cc.len() == nn {
                let pairs: Vec<(T, T)> = idx.iter().cloned().zip(idx2.iter().cloned()).collect();
                let rep = reps_of_pairs(nn, &pairs);
                for a in 0..nn {
                    cs.push(tm::ult(cc[a], k));
                    for b in 0..a {
                        cs.push(tm::iff(tm::eq(cc[a], cc[b]), tm::eq(rep[a], rep[b])));
                    }
                }
                let kk = crate::explore::concretize(k) as usize;
                for v in 0..kk {
                    cs.push(tm::or(cc.iter().map(|x| tm::eq(*x, ci(v))).collect()));
                }
            }
        }
        _ => return tm::FALSE,
    }
    tm::and(cs)
}

pub fn jobs(tier: Tier, _seed: u64) -> Vec<Job> {
    let per_job = Duration::from_secs(if tier == Tier::Quick { 60 } else { 600 });
    let cfg = base_cfg(tier);
    let (nmax, mmax) = if tier == Tier::Quick { (5usize, 3usize) } else { (6usize, 4usize) };
    let mut out = vec![];
    for n in 0..=nmax {
        for m in 0..=mmax {
            for group in 0..5u64 {
            // value-driven groups do not depend on the index arrays and vice versa
            if (group == 1 && n > nmax - 1) || (group <= 1 && m != 0) || ((group == 2 || group == 3) && n != (if group == 2 { 1 } else { 0 })) || (group == 4 && (n != 0 || m != 0)) {
                continue;
            }
            let gen = move || {
                let xs = gen_idx(n, 6, "x");
                let idx = gen_idx(m, 4, "i");
                let ys = gen_idx(m, 6, "y");
                let d = fresh("d", iw(), Some(4));
                assume(tm::ne(d, ci(0)));
                let c = fresh("c", iw(), Some(4));
                let base: Vec<T> = (0..4).map(|_| fresh("b", iw(), Some(8))).collect();
                for b in &base {
                    assume(tm::uge(*b, ci(4)));
                }
                let idx2 = gen_idx(m, 4, "j");
                let keys4 = gen_idx(4, 3, "k");
                match group {
                    0 | 1 => force_patterns(&xs),
                    4 => force_patterns(&keys4),
                    _ => {
                        force_patterns(&idx);
                        force_patterns(&idx2);
                    }
                }
                PV::List(vec![PV::of_ts(&xs), PV::of_ts(&idx), PV::of_ts(&ys), PV::T(d), PV::T(c), PV::of_ts(&base), PV::of_ts(&idx2), PV::of_ts(&keys4), PV::T(tm::c(group, 8))])
            };
            out.push(case_job(crate::case!(format!("array primitives group {} |values|={} |indices|={}", group, n, m), gen, c07_prims, oracle, 8), cfg.clone(), per_job, tier == Tier::Quick));
            }
        }
    }
    // group 5: union-find trees of every depth the node count allows. Union by rank only builds a tree of depth
    // k from two trees of depth k-1, so depth 3 needs 8 nodes and depth 4 needs 16: the merge order that
    // achieves it (binomial), under every rotation of the node names and both edge orientations, followed by
    // one more edge with symbolic endpoints.
    for k in [3usize, 4] {
        let nn = 1usize << k;
        let gen = move || {
            let rot = choose(nn);
            let flip = choose(2) == 1;
            let (mut a, mut b): (Vec<T>, Vec<T>) = (vec![], vec![]);
            for l in 0..k {
                let mut start = 0;
                while start < nn {
                    let (u, v) = ((start + rot) % nn, (start + (1 << l) + rot) % nn);
                    let (u, v) = if flip { (v, u) } else { (u, v) };
                    a.push(ci(u));
                    b.push(ci(v));
                    start += 1 << (l + 1);
                }
                // the last level is left out half of the time: two trees of depth k-1
                if l + 2 == k && choose(2) == 1 {
                    break;
                }
            }
            let extra = gen_idx(2, nn, "e");
            force_patterns(&extra);
            a.push(extra[0]);
            b.push(extra[1]);
            let base: Vec<T> = (0..4).map(|_| ci(4)).collect();
            PV::List(vec![PV::of_ts(&[]), PV::of_ts(&a), PV::of_ts(&[]), PV::T(ci(nn)), PV::T(ci(0)), PV::of_ts(&base), PV::of_ts(&b), PV::of_ts(&gen_idx(4, 3, "k")), PV::T(tm::c(5, 8))])
        };
        out.push(case_job(crate::case!(format!("array primitives group 5 (union-find depth {}) nodes={}", k, nn), gen, c07_prims, oracle, 8), cfg.clone(), per_job, tier == Tier::Quick));
    }
    out
}

/// The Vec-backend conformance jobs for the primitives a strict algorithm relies on (groups: 0 order-based,
/// 1 count-driven, 2 index-driven, 3 connected components, 4 sort_by, 5 connected components on 8 and 16 nodes), so that a change to the Vec backend
/// that breaks the algorithm's property is reported by that property's check too.
pub fn conformance_jobs(tier: Tier, groups: &[u64]) -> Vec<Job> {
    jobs(tier, 0)
        .into_iter()
        .filter(|j| groups.iter().any(|g| j.name.contains(&format!("group {} ", g))) && !j.name.contains("|values|=5") && !j.name.contains("group 1 |values|=4"))
        .map(|mut j| {
            j.name = format!("[Vec backend conformance] {}", j.name);
            j.mandatory = tier == Tier::Quick;
            j
        })
        .collect()
}
