//! C05 — every operation returns a well-formed, correctly typed diagram; checked constructors are exact.
use super::c06::gen_ff_sym;
use super::*;
use crate::explore::{assume, fresh, iw, Profile};
use crate::plain::*;
use crate::runner::*;
use crate::term::{self as tm, T};
use std::time::Duration;

pub fn def() -> CheckDef {
    CheckDef {
        id: "C05",
        functions: &[
            "FiniteFunction::new", "IndexedCoproduct::{new,from_semifinite,validate}", "Operations::{new,validate,len}",
            "strict::Hypergraph::{new,validate,empty,discrete,is_discrete,tensor_operations,coequalize_vertices}",
            "strict::OpenHypergraph::{new,validate,singleton,tensor_operations,identity,twist,compose,tensor,dagger,source,target}",
            "lax module, functors and optics (through the C09/C10/C12/C13/C14/C19 jobs): lax::OpenHypergraph::{quotient,quotient_witness,to_strict,from_strict,spider,identity,singleton}, strict::functor::define_map_arrow, dyn_functor::define_map_arrow, lax::functor::{try_define_map_arrow,map_arrow_witness}, strict::functor::optic::Optic::{map_arrow,adapt}, lax::optic::Optic::{map_arrow,map_adapted}, var::forget::{forget,forget_monogamous}",
        ],
        bounds_quick: "lax module / functors / optics: the small-shape subset of the C09, C10, C12, C13, C14 and C19 (forget) jobs; checked constructors on RAW data: arrays of length <=3 whose entries, codomains and sizes are unconstrained 64-bit values (index width 64); hypergraph/open-hypergraph constructors on valid segmented arrays with arbitrary segment counts <=2 and symbolic codomains; typed operations on W<=2, X<=1 operands",
        bounds_thorough: "arrays <=4, counts <=3, operands W<=3, X<=2",
        jobs,
        budget_s: (100, 1500),
    }
}

fn raw_ff(n: usize, name: &str) -> RawFF {
    RawFF { table: (0..n).map(|_| fresh(name, iw(), None)).collect(), target: fresh(&format!("{}T", name), iw(), None) }
}
fn c0() -> T {
    tm::c(0, iw())
}
fn c1() -> T {
    tm::c(1, iw())
}
/// mathematical sum of 64-bit sizes overflows (some prefix sum wraps)
fn sum_overflows(xs: &[T]) -> (T, T) {
    let mut acc = c0();
    let mut ov = vec![];
    for x in xs {
        let nx = tm::add(acc, *x);
        ov.push(tm::ult(nx, acc));
        acc = nx;
    }
    (tm::or(ov), acc)
}

fn oracle_ff_new(inp: &PV, out: &PV) -> T {
    if out.is_panic() {
        return tm::FALSE;
    }
    let f = inp.at(0).ff();
    let ok = tm::and(f.table.iter().map(|v| tm::ult(*v, f.target)).collect());
    match out.some() {
        None => tm::not(ok),
        Some(r) => tm::and(vec![ok, raw_ff_eq(r.ff(), f)]),
    }
}
fn oracle_ic_new(from_semifinite: bool) -> impl Fn(&PV, &PV) -> T + Send + Sync {
    move |inp: &PV, out: &PV| {
        let (src, vals) = (inp.at(0).ff(), inp.at(1).ff());
        let (ovf, sum) = sum_overflows(&src.table);
        let len = tm::c(vals.table.len() as u64, iw());
        let conds = if from_semifinite {
            // sizes sum to the value length (the size map's codomain is then that sum plus one)
            tm::and(vec![tm::not(ovf), tm::eq(sum, len)])
        } else {
            tm::and(vec![tm::not(ovf), tm::eq(sum, len), tm::eq(src.target, tm::add(sum, c1()))])
        };
        match out {
            // a panic is not an acceptance: allowed only where the documented conditions fail because the sizes overflow
            // (also when sum + 1 itself is not representable: the codomain condition cannot hold then)
            PV::Panic(m) => tm::and(vec![tm::bconst(m.contains("overflow")), tm::or2(ovf, tm::and2(tm::bconst(!from_semifinite), tm::eq(sum, tm::c(u64::MAX, iw()))))]),
            PV::None => tm::not(conds),
            PV::Some(r) => {
                let r = r.ic();
                tm::and(vec![conds, all_eq(&r.sizes, &src.table), tm::eq(r.sizes_target, tm::add(len, c1())), all_eq(&r.vals, &vals.table), tm::eq(r.vals_target, vals.target)])
            }
            _ => tm::FALSE,
        }
    }
}
fn oracle_operations(inp: &PV, out: &PV) -> T {
    if out.is_panic() {
        return tm::FALSE;
    }
    let (x, a, b) = (inp.at(0).ts(), inp.at(1).ic(), inp.at(2).ic());
    let ok = x.len() == a.sizes.len() && x.len() == b.sizes.len();
    match out.some() {
        None => tm::bconst(!ok),
        Some(r) => tm::and(vec![tm::bconst(ok), all_eq(&r.at(0).ts(), &x), raw_ic_eq(r.at(1).ic(), a), raw_ic_eq(r.at(2).ic(), b), tm::eq(r.at(3).t(), ci(x.len()))]),
    }
}
fn oracle_hypergraph(inp: &PV, out: &PV) -> T {
    if out.is_panic() {
        return tm::FALSE;
    }
    let (s, t, w, x) = (inp.at(0).ic(), inp.at(1).ic(), inp.at(2).ts(), inp.at(3).ts());
    let (sf, tf) = (inp.at(4).ff(), inp.at(5).ff());
    let c_sc = tm::bconst(s.sizes.len() == x.len());
    let c_tc = tm::bconst(t.sizes.len() == x.len());
    let c_ss = tm::eq(s.vals_target, ci(w.len()));
    let c_ts = tm::eq(t.vals_target, ci(w.len()));
    let all = tm::and(vec![c_sc, c_tc, c_ss, c_ts]);
    let names = |p: &PV| -> T {
        match p {
            PV::Tag(tag, _) => match tag.as_str() {
                "SourcesCount" => tm::not(c_sc),
                "TargetsCount" => tm::not(c_tc),
                "SourcesSet" => tm::not(c_ss),
                "TargetsSet" => tm::not(c_ts),
                _ => tm::FALSE,
            },
            _ => tm::FALSE,
        }
    };
    let h_out = out.at(0);
    let o_out = out.at(1);
    let h_ok = match h_out {
        PV::Tag(tag, rest) if tag == "Ok" => tm::and(vec![all, raw_ic_eq(&rest[0].h().s, s), raw_ic_eq(&rest[0].h().t, t), all_eq(&rest[0].h().w, &w), all_eq(&rest[0].h().x, &x)]),
        other => tm::and(vec![tm::not(all), names(other)]),
    };
    let c_s = tm::eq(sf.target, ci(w.len()));
    let c_t = tm::eq(tf.target, ci(w.len()));
    let o_ok = match o_out {
        PV::Tag(tag, rest) => match tag.as_str() {
            "Ok" => {
                if rest.is_empty() {
                    tm::FALSE
                } else {
                    tm::and(vec![all, c_s, c_t, wf_oh(rest[0].oh())])
                }
            }
            "CospanSourceType" => tm::and(vec![all, tm::not(c_s)]),
            "CospanTargetType" => tm::and(vec![all, tm::not(c_t)]),
            _ => tm::and(vec![tm::not(all), names(o_out)]),
        },
        _ => tm::FALSE,
    };
    tm::and(vec![h_ok, o_ok])
}
fn typed(p: &PV, src: &[T], tgt: &[T]) -> T {
    tm::and(vec![wf_oh(p.at(0).oh()), all_eq(&p.at(1).ts(), src), all_eq(&p.at(2).ts(), tgt)])
}
fn wf_h(h: &RawH) -> T {
    wf_oh(&RawOH { s: RawFF { table: vec![], target: ci(h.w.len()) }, t: RawFF { table: vec![], target: ci(h.w.len()) }, h: h.clone() })
}
fn oracle_constructors(inp: &PV, out: &PV) -> T {
    if out.is_panic() {
        return tm::FALSE;
    }
    let (a, b) = (inp.at(1).ts(), inp.at(2).ts());
    let (oa, ob) = (inp.at(4).ic(), inp.at(5).ic());
    let w = inp.at(6).ts();
    let single = out.at(0).at(0).oh();
    let batch = out.at(1).at(0).oh();
    tm::and(vec![
        typed(out.at(0), &a, &b),
        tm::bconst(single.h.x.len() == 1),
        tm::eq(single.h.x[0], inp.at(0).t()),
        // batch: declared types, one hyperedge per operation with its labels in order
        typed(out.at(1), &oa.vals, &ob.vals),
        all_eq(&batch.h.x, &inp.at(3).ts()),
        all_eq(&batch.h.s.sizes, &oa.sizes),
        all_eq(&batch.h.t.sizes, &ob.sizes),
        wf_h(out.at(2).h()),
        typed(out.at(3), &w, &w),
        wf_h(out.at(4).h()),
        wf_h(out.at(5).h()),
        tm::bconst(out.at(5).h().w.is_empty() && out.at(5).h().x.is_empty()),
        out.at(6).t(),
        tm::iff(out.at(7).t(), tm::bconst(oa.sizes.is_empty())),
    ])
}
fn oracle_types(inp: &PV, out: &PV) -> T {
    if out.is_panic() {
        return tm::FALSE;
    }
    let (f, g) = (inp.at(0).oh(), inp.at(1).oh());
    let lab = |f: &RawOH, refs: &[T]| refs.iter().map(|r| tm::select(&f.h.w, *r)).collect::<Vec<T>>();
    let (fs, ft, gs, gt) = (lab(f, &f.s.table), lab(f, &f.t.table), lab(g, &g.s.table), lab(g, &g.t.table));
    let cat = |a: &[T], b: &[T]| a.iter().chain(b.iter()).cloned().collect::<Vec<T>>();
    let comp = match out.at(0).some() {
        None => tm::not(all_eq(&ft, &gs)),
        Some(c) => typed(c, &fs, &gt),
    };
    tm::and(vec![comp, typed(out.at(1), &cat(&fs, &gs), &cat(&ft, &gt)), typed(out.at(2), &ft, &fs), typed(out.at(3), &cat(&fs, &gt), &cat(&gt, &fs))])
}
fn oracle_coeq(inp: &PV, out: &PV) -> T {
    if out.is_panic() {
        return tm::FALSE;
    }
    // q is a surjection from the node set: the quotient exists iff labels are constant on fibres, and is then well-formed
    let h = inp.at(0).h();
    let q = inp.at(1).ff();
    let n = h.w.len();
    let mut constant = vec![];
    for a in 0..n {
        for b in 0..a {
            constant.push(tm::implies(tm::eq(q.table[a], q.table[b]), tm::eq(h.w[a], h.w[b])));
        }
    }
    match out.some() {
        None => tm::not(tm::and(constant)),
        Some(r) => tm::and(vec![tm::and(constant), wf_h(r.h()), tm::bconst(r.h().x.len() == h.x.len())]),
    }
}

pub fn jobs(tier: Tier, seed: u64) -> Vec<Job> {
    let per_job = Duration::from_secs(match tier {
        Tier::Quick => 60,
        Tier::Thorough => 600,
    });
    let cfg = base_cfg(tier);
    // raw data: full 64-bit values, dev profile (overflow = panic)
    let mut raw = base_cfg(tier);
    raw.iw = 64;
    raw.profile = Profile::Dev;
    let m = match tier {
        Tier::Quick => 3usize,
        Tier::Thorough => 4usize,
    };
    let mut out = vec![];
    for n in 0..=m {
        out.push(case_job(crate::case!(format!("FiniteFunction::new raw |table|={}", n), move || PV::List(vec![PV::FF(raw_ff(n, "f"))]), c05_ff_new, oracle_ff_new, 2), raw.clone(), per_job, tier == Tier::Quick));
        for v in 0..=m {
            out.push(case_job(crate::case!(format!("IndexedCoproduct::new raw segments={} values={}", n, v), move || PV::List(vec![PV::FF(raw_ff(n, "z")), PV::FF(raw_ff(v, "v"))]), c05_ic_new, oracle_ic_new(false), 3), raw.clone(), per_job, tier == Tier::Quick));
            out.push(case_job(
                crate::case!(format!("IndexedCoproduct::from_semifinite raw segments={} values={}", n, v), move || PV::List(vec![PV::FF(raw_ff(n, "z")), PV::FF(raw_ff(v, "v"))]), c05_ic_from_semifinite, oracle_ic_new(true), 3),
                raw.clone(),
                per_job,
                tier == Tier::Quick,
            ));
        }
    }
    let icl = |x: usize, total: usize, name: &str| RawIC { sizes: gen_sizes(x, total, &format!("{}z", name)), sizes_target: ci(total + 1), vals: gen_labels(total, &format!("{}l", name)), vals_target: ci(0) };
    let cm = match tier {
        Tier::Quick => 2usize,
        Tier::Thorough => 3usize,
    };
    for nx in 0..=cm {
        for na in 0..=cm {
            for nb in 0..=cm {
                let gen = move || PV::List(vec![PV::of_ts(&gen_labels(nx, "x")), PV::IC(icl(na, if na == 0 { 0 } else { 2 }, "a")), PV::IC(icl(nb, if nb == 0 { 0 } else { 1 }, "b"))]);
                out.push(case_job(crate::case!(format!("Operations::new counts x={} a={} b={}", nx, na, nb), gen, c05_operations_new, oracle_operations, 2), cfg.clone(), per_job, tier == Tier::Quick));
                // hypergraph / open hypergraph constructors: valid segmented arrays, arbitrary counts and codomains
                for nw in [0usize, 2] {
                    let gen = move || {
                        let icf = |x: usize, name: &str| {
                            let total = if x == 0 { 0 } else { 2 };
                            let vt = fresh(&format!("{}VT", name), iw(), Some(4));
                            let vals: Vec<T> = (0..total).map(|_| fresh(&format!("{}v", name), iw(), Some(4))).collect();
                            for v in &vals {
                                assume(tm::ult(*v, vt));
                            }
                            RawIC { sizes: gen_sizes(x, total, &format!("{}z", name)), sizes_target: ci(total + 1), vals, vals_target: vt }
                        };
                        PV::List(vec![PV::IC(icf(na, "s")), PV::IC(icf(nb, "t")), PV::of_ts(&gen_labels(nw, "w")), PV::of_ts(&gen_labels(nx, "x")), PV::FF(gen_ff_sym(1, 3, "p")), PV::FF(gen_ff_sym(2, 3, "q"))])
                    };
                    out.push(case_job(crate::case!(format!("Hypergraph::new/OpenHypergraph::new |x|={} |s|={} |t|={} |w|={}", nx, na, nb, nw), gen, c05_hypergraph_new, oracle_hypergraph, 6), cfg.clone(), per_job, tier == Tier::Quick));
                }
            }
        }
    }
    for na in 0..=2usize {
        for nb in 0..=2usize {
            for nops in 0..=cm {
                let gen = move || {
                    PV::List(vec![
                        PV::T(fresh("x", crate::explore::lw(), None)),
                        PV::of_ts(&gen_labels(na, "a")),
                        PV::of_ts(&gen_labels(nb, "b")),
                        PV::of_ts(&gen_labels(nops, "ox")),
                        PV::IC(icl(nops, if nops == 0 { 0 } else { 2 }, "oa")),
                        PV::IC(icl(nops, if nops == 0 { 0 } else { 1 }, "ob")),
                        PV::of_ts(&gen_labels(na + nb, "w")),
                    ])
                };
                out.push(case_job(crate::case!(format!("singleton/tensor_operations/identity/discrete/empty |a|={} |b|={} ops={}", na, nb, nops), gen, c05_constructors, oracle_constructors, 14), cfg.clone(), per_job, tier == Tier::Quick));
            }
        }
    }
    let bx = match tier {
        Tier::Quick => shapes(2, 1, 1, 1, 1, 1),
        Tier::Thorough => shapes(2, 2, 2, 2, 2, 2),
    };
    let mut pairs = vec![];
    for f in &bx {
        for g in &bx {
            if f.b == g.a {
                pairs.push((*f, *g));
            }
        }
    }
    Rng::new(seed).shuffle(&mut pairs);
    for (f, g) in pairs {
        let gen = move || PV::List(vec![PV::OH(gen_oh(&f, "f")), PV::OH(gen_oh(&g, "g"))]);
        out.push(case_job(crate::case!(format!("types of ; (x) dagger twist {} {}", f.show(), g.show()), gen, c05_types, oracle_types, 8), cfg.clone(), per_job, false));
    }
    // lax module, functors: results well-formed (identifiers in range) and correctly typed. These are the
    // obligations decided by the quotient (C09), conversion (C10), functor (C12) and forget (C19) jobs, whose
    // oracles compare every field / decide isomorphism with a well-formed reference; a subset runs here too.
    out.extend(super::c09::jobs(tier, seed).into_iter().filter(|j| !j.name.contains(" ids[") && !j.name.contains("N3E") && !j.name.contains("N4")).map(|mut j| { j.mandatory = false; j }));
    out.extend(super::c19::jobs(tier, seed).into_iter().filter(|j| j.name.starts_with("forget") && !j.name.contains(" ids[") && !j.name.contains("N3E")).map(|mut j| { j.mandatory = false; j }));
    out.extend(super::lax::c10_jobs(tier, seed).into_iter().filter(|j| (j.name.starts_with("to_strict") || j.name.starts_with("round trips")) && !j.name.contains(" ids[")).take(120).map(|mut j| { j.mandatory = false; j }));
    out.extend(super::lax::c04_lax_jobs(tier, seed).into_iter().take(60).map(|mut j| { j.mandatory = false; j }));
    out.extend(super::c12::lax_jobs(tier).into_iter().filter(|j| !j.name.contains(" ids[")).take(150).map(|mut j| { j.mandatory = false; j }));
    // functor and optic application (strict and native lax paths, adapt/map_adapted): the C12/C13/C14 oracles
    // decide isomorphism with a well-formed reference of the promised type
    let unmand = |mut j: Job| { j.mandatory = false; j };
    out.extend(super::c12::jobs(tier, seed).into_iter().filter(|j| j.name.starts_with("map_arrow[")).take(100).map(unmand));
    out.extend(super::c14::jobs(tier, seed).into_iter().filter(|j| j.name.starts_with("optic fwd=") || j.name.starts_with("lax optic")).take(160).map(unmand));
    out.extend(super::c13::jobs(tier, seed).into_iter().filter(|j| !j.name.contains(" ids[")).take(100).map(unmand));
    let hb = match tier {
        Tier::Quick => shapes(3, 1, 2, 2, 0, 0),
        Tier::Thorough => shapes(3, 2, 3, 3, 0, 0),
    };
    for sh in hb {
        for k in 0..=sh.w {
            if (sh.w == 0) != (k == 0) {
                continue;
            }
            let gen = move || {
                let q = gen_idx(sh.w, k, "q");
                for c in 0..k {
                    assume(tm::or(q.iter().map(|v| tm::eq(*v, ci(c))).collect()));
                }
                PV::List(vec![PV::H(gen_h(&sh, "h")), PV::FF(RawFF { table: q, target: ci(k) })])
            };
            out.push(case_job(crate::case!(format!("coequalize_vertices {} onto {}", sh.show(), k), gen, c05_coequalize_vertices, oracle_coeq, 3), cfg.clone(), per_job, false));
        }
    }
    out
}
