//! C19 — Var-built terms mean the expression written; forgetting copies keeps meaning (lax tier).
use super::c12::{disc, substitute_with};
use super::lax::consistent;
use super::*;
use crate::conv::*;
use crate::explore::{assume, branch, fresh, lw, vw};
use crate::plain::*;
use crate::runner::*;
use crate::term::{self as tm, T};
use std::time::Duration;

pub fn def() -> CheckDef {
    CheckDef {
        id: "C19",
        functions: &["lax::var::{Var::new,Var::new_source,Var::new_target,build,operation,fn_operation}", "operator impls Add Mul Sub Neg Not BitXor BitAnd for Var", "lax::var::forget::{forget,forget_monogamous,Forget::map_operation,ForgetMonogamous::map_operation,all_elements_equal}", "lax::functor::dyn_functor::{define_map_arrow,DynFunctor::{map_object,map_operations,map_arrow}}", "lax::OpenHypergraph::{to_strict,from_strict,tensor_assign,singleton,spider}"],
        bounds_quick: "forget / forget_monogamous on every lax term with <=3 nodes and <=2 hyperedges of arity <=2 (0->n, n->0 and 0->0 included), <=1 pending pair, interfaces <=1; node and edge labels symbolic, so every hyperedge is variable-labelled or not and its incident labels equal or not by the solver's choice; Var builder: ten scripted uses (all operator overloads, operation/fn_operation, explicit new_target) (sharing, multi-result operations, unused inputs, leaked handle) evaluated on symbolic 64-bit inputs",
        bounds_thorough: "forget on <=4 nodes, <=2 hyperedges of arity <=3",
        jobs,
        budget_s: (110, 1500),
    }
}

fn var_lab() -> T {
    cl(L_VAR)
}
/// reference image of Forget on one hyperedge
fn forget_image(monogamous_only: bool, e: &PEdge, a: &[T], b: &[T]) -> Plain {
    let single = |e: &PEdge| {
        let labs: Vec<T> = a.iter().chain(b.iter()).cloned().collect();
        let mut p = disc(&labs);
        p.s = (0..a.len()).map(ci).collect();
        p.t = (a.len()..a.len() + b.len()).map(ci).collect();
        p.edges = vec![PEdge { lab: e.lab, src: p.s.clone(), tgt: p.t.clone() }];
        p
    };
    if monogamous_only && !(a.len() == 1 && b.len() == 1) {
        return single(e);
    }
    if !branch(tm::eq(e.lab, var_lab())) {
        return single(e);
    }
    let all: Vec<T> = a.iter().chain(b.iter()).cloned().collect();
    if all.is_empty() {
        // a variable with no incident nodes is replaced by nothing
        return disc(&[]);
    }
    let uniform = tm::and(all.iter().map(|l| tm::eq(*l, all[0])).collect());
    if !branch(uniform) {
        return single(e);
    }
    // one merged node
    let mut p = disc(&[all[0]]);
    p.s = vec![ci(0); a.len()];
    p.t = vec![ci(0); b.len()];
    p
}
fn oracle_forget(inp: &PV, out: &PV) -> T {
    if out.is_panic() {
        return tm::FALSE;
    }
    let f = inp.at(0).lax();
    let p = strict_of_lax(f);
    let one = |mono: bool, o: &PV| {
        let r = o.lax();
        let want = substitute_with(&p, &|l| vec![l], &|e, a, b| forget_image(mono, e, a, b));
        tm::and(vec![tm::bconst(r.quot.is_empty()), iso(&want, &plain_of_lax(r))])
    };
    tm::and(vec![one(false, out.at(0)), one(true, out.at(1))])
}

/// interpretation of the binary operators of the test signature. Every one is order-sensitive (the
/// commutative ones get "+ second operand"), so that an operator wired to its operands in the wrong order
/// computes a different function from the expression written.
fn bin(k: u64, a: T, b: T) -> T {
    match k {
        L_ADD => tm::add(tm::add(a, b), b),
        L_MUL => tm::add(tm::mul(a, b), b),
        L_SUB => tm::sub(a, b),
        L_XOR => tm::add(tm::bxor(a, b), b),
        L_AND => tm::add(tm::band(a, b), b),
        L_OR => tm::add(tm::bor(a, b), b),
        L_SHL => tm::add(a, tm::add(b, b)),
        L_SHR => tm::sub(a, tm::add(b, b)),
        L_DIV => tm::sub(tm::add(a, a), b),
        _ => panic!("ENGINE-ERROR: not a binary operator of the test signature"),
    }
}
/// reference evaluation of a lax term in which variable hyperedges are read as copies
fn eval_lax(r: &RawLax, inputs: &[T]) -> Option<Vec<T>> {
    let n = r.nodes.len();
    let zero = tm::c(0, vw());
    let mut val: Vec<T> = vec![zero; n];
    for (i, s) in r.s.iter().enumerate() {
        val[RawLax::id(*s)] = inputs[i];
    }
    for _ in 0..r.edges.len() + 1 {
        for (x, (src, tgt)) in r.edges.iter().zip(r.adj.iter()) {
            let k = tm::as_const(*x)?;
            let xs: Vec<T> = src.iter().map(|t| val[RawLax::id(*t)]).collect();
            let ys: Vec<T> = match k {
                L_VAR => {
                    if xs.is_empty() {
                        continue;
                    }
                    vec![xs[0]; tgt.len()]
                }
                L_ADD | L_MUL | L_SUB | L_XOR | L_AND | L_OR | L_SHL | L_SHR | L_DIV => vec![bin(k, xs[0], xs[1])],
                L_NEG => vec![tm::sub(zero, xs[0])],
                L_NOT => vec![tm::bxor(xs[0], tm::c(u64::MAX, vw()))],
                // the ternary test operation: (a + 2b, b * c) (order-sensitive in every argument)
                L_OP3 => vec![tm::add(xs[0], tm::add(xs[1], xs[1])), tm::mul(xs[1], *xs.get(2).unwrap_or(&xs[1]))],
                _ => return None,
            };
            for (t, y) in tgt.iter().zip(ys.iter()) {
                val[RawLax::id(*t)] = *y;
            }
        }
    }
    Some(r.t.iter().map(|t| val[RawLax::id(*t)]).collect())
}
fn oracle_build(inp: &PV, out: &PV) -> T {
    if out.is_panic() {
        return tm::FALSE;
    }
    let script = tm::as_const(inp.at(0).t()).unwrap();
    let (tx, ty, t1, t2) = (inp.at(1).t(), inp.at(2).t(), inp.at(3).t(), inp.at(4).t());
    let (x, y) = (inp.at(5).t(), inp.at(6).t());
    let (tag, f) = match out {
        PV::Tag(t, r) => (t.as_str(), r[0].lax()),
        _ => return tm::FALSE,
    };
    if script == 9 {
        // build() overwrites the interfaces: the extra target added by hand is a node of x's hyperedge but
        // not an output; inputs [x], outputs [x]
        if tag != "Ok" {
            return tm::FALSE;
        }
        let var_edges: Vec<&(Vec<T>, Vec<T>)> = f.edges.iter().zip(f.adj.iter()).filter(|(l, _)| tm::as_const(**l) == Some(L_VAR)).map(|(_, a)| a).collect();
        let x_edge = var_edges.iter().find(|(s, _)| s.len() == 1 && f.s.len() == 1 && s[0] == f.s[0]);
        return match x_edge {
            None => tm::FALSE,
            Some((s, t)) => tm::and(vec![tm::bconst(s.len() == 1 && t.len() == 2 && f.t.len() == 1 && t[1] == f.t[0] && f.quot.is_empty()), tm::and(f.nodes.iter().map(|l| tm::eq(*l, tx)).filter(|_| true).take(0).collect()), tm::and(s.iter().chain(t.iter()).map(|n| tm::eq(f.nodes[RawLax::id(*n)], tx)).collect())]),
        };
    }
    // building fails, handing back the shared state, only when a handle outlives the builder (script 7); the
    // state handed back is the term as built: declared inputs and outputs are its interfaces
    if (tag == "Err") != (script == 7) {
        return tm::FALSE;
    }
    let zero = tm::c(0, vw());
    let (n_in, n_ops, want, types_in, types_out): (usize, usize, Vec<T>, Vec<T>, Vec<T>) = match script {
        0 => (2, 2, vec![bin(L_MUL, bin(L_ADD, x, y), x)], vec![tx, ty], vec![tx]),
        1 => (2, 2, vec![bin(L_XOR, tm::sub(zero, x), y), x], vec![tx, ty], vec![tx, tx]),
        2 => (2, 1, vec![tm::add(x, tm::add(x, x)), tm::mul(x, y)], vec![tx, ty], vec![t1, t2]),
        3 => (1, 0, vec![x, x], vec![tx], vec![tx, tx]),
        4 => (0, 0, vec![], vec![], vec![]),
        5 => (2, 3, vec![tm::bxor(bin(L_AND, x, bin(L_SUB, y, x)), tm::c(u64::MAX, vw()))], vec![tx, ty], vec![tx]),
        6 => (2, 1, vec![tm::add(x, tm::add(x, x))], vec![tx, ty], vec![t1]),
        8 => {
            let shl = bin(L_SHL, bin(L_OR, x, y), bin(L_SHR, y, x));
            (2, 4, vec![bin(L_DIV, shl, x)], vec![tx, ty], vec![tx])
        }
        // inputs [x], outputs [y]; y is never defined, so its value is not constrained (see `got` below)
        7 => (1, 0, vec![], vec![tx], vec![ty]),
        _ => return tm::FALSE,
    };
    let ins: Vec<T> = [x, y][..n_in].to_vec();
    if f.s.len() != n_in {
        return tm::FALSE;
    }
    let ops = f.edges.iter().filter(|l| tm::as_const(**l) != Some(L_VAR)).count();
    let got = match eval_lax(f, &ins) {
        None => return tm::FALSE,
        Some(g) => g,
    };
    let lab_at = |refs: &[T]| refs.iter().map(|t| f.nodes[RawLax::id(*t)]).collect::<Vec<T>>();
    tm::and(vec![
        // one hyperedge per applied operator (plus variable hyperedges), no pending unification
        tm::bconst(ops == n_ops && f.quot.is_empty()),
        // every use of a variable reads the value produced for it: the term computes the expression written
        if script == 7 { tm::bconst(got.len() == 1) } else { all_eq(&got, &want) },
        // declared inputs and outputs are the interfaces, in order, with their declared labels
        all_eq(&lab_at(&f.s), &types_in),
        all_eq(&lab_at(&f.t), &types_out),
        // every node incident to a variable's hyperedge carries that variable's label
        tm::and(
            f.edges
                .iter()
                .zip(f.adj.iter())
                .filter(|(l, _)| tm::as_const(**l) == Some(L_VAR))
                .map(|(_, (s, t))| {
                    let ls = lab_at(&s.iter().chain(t.iter()).cloned().collect::<Vec<T>>());
                    tm::and(ls.windows(2).map(|w| tm::eq(w[0], w[1])).collect())
                })
                .collect(),
        ),
    ])
}

pub fn jobs(tier: Tier, _seed: u64) -> Vec<Job> {
    let per_job = Duration::from_secs(if tier == Tier::Quick { 90 } else { 600 });
    let cfg = base_cfg(tier);
    let mut out = vec![];
    // Var builder scripts
    for script in 0..10u64 {
        let gen = move || {
            PV::List(vec![PV::T(tm::c(script, 8)), PV::T(fresh("tx", lw(), None)), PV::T(fresh("ty", lw(), None)), PV::T(fresh("t1", lw(), None)), PV::T(fresh("t2", lw(), None)), PV::T(fresh("x", vw(), None)), PV::T(fresh("y", vw(), None))])
        };
        out.push(case_job(crate::case!(format!("Var builder script {}", script), gen, c19_build, oracle_build, 4), cfg.clone(), per_job, true));
    }
    // forgetting
    let mut shs = vec![];
    let nmax = if tier == Tier::Quick { 3 } else { 4 };
    let ars: Vec<Vec<(usize, usize)>> = vec![vec![(1, 1)], vec![(0, 2)], vec![(2, 0)], vec![(0, 0)], vec![(1, 2)], vec![(2, 1)], vec![(0, 1)], vec![(1, 0)], vec![(1, 1), (1, 1)], vec![(0, 2), (1, 1)], vec![(1, 1), (2, 0)], vec![(0, 1), (1, 0)], vec![(0, 3)], vec![(2, 2)]];
    for n in 0..=nmax {
        for ar in &ars {
            for q in 0..=1usize {
                for (a, b) in [(0usize, 0usize), (1, 1)] {
                    let sh = LaxShape::new(n, ar, q, a, b);
                    if sh.inhabited() && sh.refs() <= (if tier == Tier::Quick { 6 } else { 8 }) {
                        shs.push(sh);
                    }
                }
            }
        }
    }
    shs.sort_by_key(|s| s.refs());
    for sh in shs {
        let sh2 = sh.clone();
        let gen = move || {
            let f = gen_lax(&sh2, "f");
            assume(consistent(&f));
            PV::List(vec![PV::Lax(f)])
        };
        let j = case_job(crate::case!(format!("forget/forget_monogamous {}", sh.show()), gen, c19_forget, oracle_forget, 4), cfg.clone(), per_job, tier == Tier::Quick && sh.refs() <= 5);
        out.extend(split_by_choices(j, sh.n, if sh.refs() >= 6 { 1 } else { 0 }));
    }
    out
}
