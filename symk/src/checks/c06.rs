//! C06 — finite functions form a category with coproducts and coequalizers.
use super::*;
use crate::explore::{assume, concretize, fresh, iw};
use crate::plain::*;
use crate::runner::*;
use crate::term::{self as tm, T};
use std::time::Duration;

pub fn def() -> CheckDef {
    CheckDef {
        id: "C06",
        functions: &[
            "FiniteFunction::{new,compose,>>,identity,initial,to_initial,terminal,constant,inj0,inj1,inject0,inject1,coproduct,+,tensor,|,twist,transpose,cumulative_sum,injections,is_injective,coequalizer,coequalizer_universal,source,target,==}",
            "finite_function::coequalizer_universal",
            "semifinite::compose_semifinite, &FiniteFunction >> &SemifiniteFunction", "SemifiniteArrow::{source,target,identity,compose}",
        ],
        bounds_quick: "tables of length <=3 over symbolic codomain sizes 0..=3 (composition: all four combinations of typed/mistyped decided by the solver); scalars a,b,x symbolic in 0..=3; coequalizer: parallel pairs of length <=3 over <=4 points; universal map: q of length <=4 onto <=3 classes",
        bounds_thorough: "lengths <=4, codomains 0..=4, coequalizer over <=5 points",
        jobs,
        budget_s: (90, 1500),
    }
}

/// finite function with `n` entries and symbolic codomain in 0..=tmax, entries < codomain
pub fn gen_ff_sym(n: usize, tmax: usize, name: &str) -> RawFF {
    let target = fresh(&format!("{}T", name), iw(), Some(tmax as u64 + 1));
    let table: Vec<T> = (0..n).map(|_| fresh(name, iw(), Some(tmax as u64 + 1))).collect();
    for t in &table {
        assume(tm::ult(*t, target));
    }
    RawFF { table, target }
}
fn gen_scalar(name: &str, max: usize) -> T {
    fresh(name, iw(), Some(max as u64 + 1))
}
fn ff_is(r: &RawFF, table: &[T], target: T) -> T {
    tm::and(vec![all_eq(&r.table, table), tm::eq(r.target, target)])
}
fn iota(a: usize, n: usize) -> Vec<T> {
    (a..a + n).map(ci).collect()
}

fn oracle_compose(inp: &PV, out: &PV) -> T {
    if out.is_panic() {
        return tm::FALSE;
    }
    let (f, g) = (inp.at(0).ff(), inp.at(1).ff());
    let typed = tm::eq(f.target, ci(g.table.len()));
    let one = |o: &PV| match o.some() {
        None => tm::not(typed),
        Some(r) => {
            let r = r.ff();
            if r.table.len() != f.table.len() {
                return tm::FALSE;
            }
            let mut cs = vec![typed, tm::eq(r.target, g.target)];
            for i in 0..f.table.len() {
                // pointwise application (guarded: when typed, f[i] < |g|)
                if g.table.is_empty() {
                    cs.push(tm::FALSE);
                } else {
                    cs.push(tm::eq(r.table[i], tm::select(&g.table, f.table[i])));
                }
            }
            tm::and(cs)
        }
    };
    tm::and(vec![one(out.at(0)), one(out.at(1))])
}

fn oracle_basic(inp: &PV, out: &PV) -> T {
    if out.is_panic() {
        return tm::FALSE;
    }
    let (a, b, x) = (inp.at(0).t(), inp.at(1).t(), inp.at(2).t());
    let av = concretize(a) as usize;
    let bv = concretize(b) as usize;
    let o = |i: usize| out.at(i).ff().clone();
    let zero = ci(0);
    let mut tw = iota(bv, av);
    tw.extend(iota(0, bv));
    tm::and(vec![
        ff_is(&o(0), &iota(0, av), a),
        ff_is(&o(1), &[], a),
        ff_is(&o(2), &vec![zero; av], ci(1)),
        ff_is(&o(3), &vec![x; av], tm::add(tm::add(x, b), ci(1))),
        ff_is(&o(4), &iota(0, av), tm::add(a, b)),
        ff_is(&o(5), &iota(av, bv), tm::add(a, b)),
        ff_is(&o(6), &tw, tm::add(a, b)),
        tm::eq(out.at(7).t(), zero),
        tm::eq(out.at(8).t(), zero),
    ])
}

fn oracle_transpose(inp: &PV, out: &PV) -> T {
    if out.is_panic() {
        return tm::FALSE;
    }
    let (a, b) = (inp.at(0).t(), inp.at(1).t());
    let (av, bv) = (concretize(a) as usize, concretize(b) as usize);
    let t = out.at(0).ff();
    if t.table.len() != av * bv {
        return tm::FALSE;
    }
    // entry (q, r) of a matrix stored with rows of length a goes to entry (r, q) with rows of length b
    let mut cs = vec![tm::eq(t.target, ci(av * bv))];
    for q in 0..bv {
        for r in 0..av {
            cs.push(tm::eq(t.table[q * av + r], ci(r * bv + q)));
        }
    }
    // transpose(a,b) ; transpose(b,a) = id
    match out.at(1).some() {
        None => cs.push(tm::FALSE),
        Some(c) => cs.push(ff_is(c.ff(), &iota(0, av * bv), ci(av * bv))),
    }
    tm::and(cs)
}

fn oracle_unary(inp: &PV, out: &PV) -> T {
    if out.is_panic() {
        return tm::FALSE;
    }
    let f = inp.at(0).ff();
    let a = inp.at(1).t();
    let n = f.table.len();
    let shifted: Vec<T> = f.table.iter().map(|t| tm::add(*t, a)).collect();
    let mut pre = vec![ci(0)];
    for i in 0..n {
        let nx = tm::add(pre[i], f.table[i]);
        pre.push(nx);
    }
    let mut distinct = vec![];
    for i in 0..n {
        for j in 0..i {
            distinct.push(tm::ne(f.table[i], f.table[j]));
        }
    }
    let some_is = |o: &PV, table: &[T], target: T| match o.some() {
        None => tm::FALSE,
        Some(r) => ff_is(r.ff(), table, target),
    };
    tm::and(vec![
        ff_is(out.at(0).ff(), &f.table, tm::add(a, f.target)),
        ff_is(out.at(1).ff(), &shifted, tm::add(a, f.target)),
        ff_is(out.at(2).ff(), &[], f.target),
        ff_is(out.at(3).ff(), &pre[..n], pre[n]),
        tm::iff(out.at(4).t(), tm::and(distinct)),
        tm::eq(out.at(5).t(), ci(n)),
        tm::eq(out.at(6).t(), f.target),
        // the direct forms agree with composition with the injections
        some_is(out.at(7), &f.table, tm::add(f.target, a)),
        some_is(out.at(8), &shifted, tm::add(a, f.target)),
    ])
}

fn oracle_binary(inp: &PV, out: &PV) -> T {
    if out.is_panic() {
        return tm::FALSE;
    }
    let (f, g) = (inp.at(0).ff(), inp.at(1).ff());
    let same = tm::eq(f.target, g.target);
    let mut cat = f.table.clone();
    cat.extend(g.table.iter().cloned());
    let mut ten = f.table.clone();
    ten.extend(g.table.iter().map(|t| tm::add(*t, f.target)));
    let cop = |o: &PV| match o.some() {
        None => tm::not(same),
        Some(r) => tm::and(vec![same, ff_is(r.ff(), &cat, f.target)]),
    };
    tm::and(vec![
        cop(out.at(0)),
        cop(out.at(1)),
        ff_is(out.at(2).ff(), &ten, tm::add(f.target, g.target)),
        ff_is(out.at(3).ff(), &ten, tm::add(f.target, g.target)),
        tm::iff(out.at(4).t(), tm::and(vec![all_eq(&f.table, &g.table), same])),
    ])
}

fn oracle_semifinite(inp: &PV, out: &PV) -> T {
    if out.is_panic() {
        return tm::FALSE;
    }
    let f = inp.at(0).ff();
    let l = inp.at(1).ts();
    let typed = tm::eq(f.target, ci(l.len()));
    let one = |o: &PV| match o.some() {
        None => tm::not(typed),
        Some(r) => {
            let r = r.ts();
            if r.len() != f.table.len() || (l.is_empty() && !r.is_empty()) {
                return tm::FALSE;
            }
            tm::and(vec![typed, tm::and((0..r.len()).map(|i| tm::eq(r[i], tm::select(&l, f.table[i]))).collect())])
        }
    };
    tm::and(vec![one(out.at(0)), one(out.at(1))])
}

fn oracle_injections(inp: &PV, out: &PV) -> T {
    if out.is_panic() {
        return tm::FALSE;
    }
    let (s, a) = (inp.at(0).ff(), inp.at(1).ff());
    let typed = tm::eq(a.target, ci(s.table.len()));
    match out.some() {
        None => tm::not(typed),
        Some(r) => {
            let r = r.ff();
            // offsets of the blocks of the codomain
            let mut off = vec![ci(0)];
            for i in 0..s.table.len() {
                let nx = tm::add(off[i], s.table[i]);
                off.push(nx);
            }
            if s.table.is_empty() {
                return tm::and(vec![typed, tm::bconst(r.table.is_empty()), tm::eq(r.target, ci(0))]);
            }
            // expected: for each x in A, the block of size s(a(x)) shifted to offset(a(x))
            let mut want = vec![];
            for x in 0..a.table.len() {
                let sz = concretize(tm::select(&s.table, a.table[x])) as usize;
                let base = tm::select(&off[..s.table.len()], a.table[x]);
                for j in 0..sz {
                    want.push(tm::add(base, ci(j)));
                }
            }
            tm::and(vec![typed, ff_is(r, &want, off[s.table.len()])])
        }
    }
}

fn oracle_coequalizer(inp: &PV, out: &PV) -> T {
    if out.is_panic() {
        return tm::FALSE;
    }
    let (f, g) = (inp.at(0).ff(), inp.at(1).ff());
    let parallel = tm::and2(tm::bconst(f.table.len() == g.table.len()), tm::eq(f.target, g.target));
    match out.some() {
        None => tm::not(parallel),
        Some(q) => {
            let q = q.ff();
            let n = q.table.len();
            let k = concretize(q.target) as usize;
            let mut cs = vec![parallel, tm::eq(f.target, ci(n))];
            if f.table.len() != g.table.len() {
                return tm::FALSE;
            }
            // surjective onto 0..k
            for v in &q.table {
                cs.push(tm::ult(*v, ci(k)));
            }
            for c in 0..k {
                cs.push(tm::or(q.table.iter().map(|v| tm::eq(*v, ci(c))).collect()));
            }
            if n > 0 {
                // identifies f(i) with g(i)
                for i in 0..f.table.len() {
                    cs.push(tm::eq(tm::select(&q.table, f.table[i]), tm::select(&q.table, g.table[i])));
                }
                // and nothing that is not linked by a chain of such pairs
                let pairs: Vec<(T, T)> = f.table.iter().cloned().zip(g.table.iter().cloned()).collect();
                let rep = reps_of_pairs(n, &pairs);
                for a in 0..n {
                    for b in 0..a {
                        cs.push(tm::implies(tm::eq(q.table[a], q.table[b]), tm::eq(rep[a], rep[b])));
                    }
                }
            }
            tm::and(cs)
        }
    }
}

fn oracle_universal(inp: &PV, out: &PV) -> T {
    if out.is_panic() {
        return tm::FALSE;
    }
    let (q, f) = (inp.at(0).ff(), inp.at(1).ff());
    let l = inp.at(2).ts();
    let n = q.table.len();
    let k = concretize(q.target) as usize;
    let one = |o: &PV, vals: &[T], target: Option<T>| {
        if vals.len() != n {
            return tm::bconst(o.some().is_none());
        }
        let mut constant = vec![];
        for a in 0..n {
            for b in 0..a {
                constant.push(tm::implies(tm::eq(q.table[a], q.table[b]), tm::eq(vals[a], vals[b])));
            }
        }
        let constant = tm::and(constant);
        match o.some() {
            None => tm::not(constant),
            Some(u) => {
                let (ut, utarget) = match u {
                    PV::FF(r) => (r.table.clone(), Some(r.target)),
                    other => (other.ts(), None),
                };
                if ut.len() != k {
                    return tm::FALSE;
                }
                let mut cs = vec![constant];
                if let (Some(a), Some(b)) = (utarget, target) {
                    cs.push(tm::eq(a, b));
                }
                // q ; u = f
                for i in 0..n {
                    cs.push(tm::eq(tm::select(&ut, q.table[i]), vals[i]));
                }
                tm::and(cs)
            }
        }
    };
    tm::and(vec![one(out.at(0), &f.table, Some(f.target)), one(out.at(1), &l, None)])
}

/// surjection of length n onto 0..k (k concrete), as assumptions
fn gen_surjection(n: usize, k: usize, name: &str) -> RawFF {
    let table = gen_idx(n, k, name);
    for c in 0..k {
        assume(tm::or(table.iter().map(|v| tm::eq(*v, ci(c))).collect()));
    }
    RawFF { table, target: ci(k) }
}

fn oracle_semifinite_arrow(inp: &PV, out: &PV) -> T {
    if out.is_panic() {
        return tm::FALSE;
    }
    let (f, g, l) = (inp.at(0).ff(), inp.at(1).ff(), inp.at(2).ts());
    let pointwise = |tab: &[T]| f.table.iter().map(|v| if tab.is_empty() { *v } else { tm::select(tab, *v) }).collect::<Vec<T>>();
    let is = |o: &PV, tag: &str| matches!(o, PV::Tag(t, _) if t == tag);
    let fin = |o: &PV, typed: T, tab: &[T], target: T| match o {
        PV::None => tm::not(typed),
        PV::Tag(t, r) if t == "Finite" => tm::and(vec![typed, ff_is(r[0].ff(), tab, target)]),
        _ => tm::FALSE,
    };
    let semi = |o: &PV, typed: T, tab: &[T]| match o {
        PV::None => tm::not(typed),
        PV::Tag(t, r) if t == "Semifinite" => tm::and(vec![typed, all_eq(&r[0].ts(), tab)]),
        _ => tm::FALSE,
    };
    let obj_is = |o: &PV, want: Option<T>| match (o.some(), want) {
        (None, None) => tm::TRUE,
        (Some(x), Some(w)) => tm::eq(x.t(), w),
        _ => tm::FALSE,
    };
    let a = concretize(f.target) as usize;
    tm::and(vec![
        fin(out.at(0), tm::eq(f.target, ci(g.table.len())), &pointwise(&g.table), g.target),
        semi(out.at(1), tm::eq(f.target, ci(l.len())), &pointwise(&l)),
        // only a finite function can be pre-composed; identities on types do not compose
        tm::bconst(matches!(out.at(2), PV::None) && matches!(out.at(3), PV::None) && matches!(out.at(4), PV::None)),
        obj_is(out.at(5), Some(ci(f.table.len()))),
        obj_is(out.at(6), Some(f.target)),
        obj_is(out.at(7), Some(ci(l.len()))),
        obj_is(out.at(8), None),
        match out.at(9) {
            PV::Tag(t, r) if t == "Finite" => ff_is(r[0].ff(), &iota(0, a), f.target),
            _ => tm::FALSE,
        },
        tm::bconst(is(out.at(10), "Identity")),
    ])
}

pub fn jobs(tier: Tier, _seed: u64) -> Vec<Job> {
    let per_job = Duration::from_secs(match tier {
        Tier::Quick => 60,
        Tier::Thorough => 600,
    });
    let cfg = base_cfg(tier);
    let m = match tier {
        Tier::Quick => 3usize,
        Tier::Thorough => 4usize,
    };
    let mut cases: Vec<Case> = vec![];
    for a in 0..=m {
        for b in 0..=m {
            cases.push(crate::case!(format!("compose |f|={} |g|={}", a, b), move || PV::List(vec![PV::FF(gen_ff_sym(a, m, "f")), PV::FF(gen_ff_sym(b, m, "g"))]), c06_compose, oracle_compose, 4));
            cases.push(crate::case!(format!("coproduct/tensor/eq |f|={} |g|={}", a, b), move || PV::List(vec![PV::FF(gen_ff_sym(a, m, "f")), PV::FF(gen_ff_sym(b, m, "g"))]), c06_binary, oracle_binary, 5));
            cases.push(crate::case!(format!("injections |s|={} |a|={}", a, b), move || PV::List(vec![PV::FF(gen_ff_sym(a, m, "s")), PV::FF(gen_ff_sym(b, m, "a"))]), c06_injections, oracle_injections, 2));
            cases.push(crate::case!(
                format!("compose_semifinite |f|={} |labels|={}", a, b),
                move || PV::List(vec![PV::FF(gen_ff_sym(a, m, "f")), PV::of_ts(&gen_labels(b, "l"))]),
                c06_semifinite,
                oracle_semifinite,
                2
            ));
        }
        for b in 0..=m {
            cases.push(crate::case!(
                format!("SemifiniteArrow |f|={} |g|=|labels|={}", a, b),
                move || PV::List(vec![PV::FF(gen_ff_sym(a, m, "f")), PV::FF(gen_ff_sym(b, m, "g")), PV::of_ts(&gen_labels(b, "l"))]),
                c06_semifinite_arrow,
                oracle_semifinite_arrow,
                11
            ));
        }
        cases.push(crate::case!(format!("unary ops |f|={}", a), move || PV::List(vec![PV::FF(gen_ff_sym(a, m, "f")), PV::T(gen_scalar("a", m))]), c06_unary, oracle_unary, 9));
    }
    cases.push(crate::case!("constructors with symbolic a,b,x".to_string(), move || PV::List(vec![PV::T(gen_scalar("a", m)), PV::T(gen_scalar("b", m)), PV::T(gen_scalar("x", m))]), c06_basic, oracle_basic, 9));
    cases.push(crate::case!("transpose(a,b) with symbolic a,b".to_string(), move || PV::List(vec![PV::T(gen_scalar("a", m)), PV::T(gen_scalar("b", m))]), c06_transpose, oracle_transpose, 3));
    // coequalizer: all (possibly non-parallel) pairs
    for n in 0..=m + 1 {
        for a in 0..=m {
            for b in [a, (a + 1) % (m + 1)] {
                let gen = move || {
                    let f = RawFF { table: gen_idx(a, n, "f"), target: ci(n) };
                    // g's codomain is symbolic so that "not parallel" is decided by the solver too
                    let gt = fresh("gT", iw(), Some(m as u64 + 3));
                    let gtab: Vec<T> = (0..b).map(|_| fresh("g", iw(), Some(m as u64 + 3))).collect();
                    for t in &gtab {
                        assume(tm::ult(*t, gt));
                    }
                    PV::List(vec![PV::FF(f), PV::FF(RawFF { table: gtab, target: gt })])
                };
                if n == 0 && a > 0 {
                    continue;
                }
                cases.push(crate::case!(format!("coequalizer points={} |f|={} |g|={}", n, a, b), gen, c06_coequalizer, oracle_coequalizer, 4));
            }
        }
    }
    // universal map through a surjection
    for n in 0..=m + 1 {
        for k in 0..=n.min(m) {
            if (n == 0) != (k == 0) {
                continue;
            }
            for fl in [n, n + 1] {
                let gen = move || PV::List(vec![PV::FF(gen_surjection(n, k, "q")), PV::FF(gen_ff_sym(fl, m, "f")), PV::of_ts(&gen_labels(fl, "l"))]);
                cases.push(crate::case!(format!("coequalizer_universal |q|={} classes={} |f|={}", n, k, fl), gen, c06_universal, oracle_universal, 4));
            }
        }
    }
    cases.into_iter().map(|c| case_job(c, cfg.clone(), per_job, tier == Tier::Quick)).collect()
}
