//! C01 — sequential composition is exactly the pushout (gluing) of the two diagrams.
use super::*;
use crate::plain::*;
use crate::runner::*;
use crate::term::{self as tm, T};
use std::time::Duration;

pub fn def() -> CheckDef {
    CheckDef {
        id: "C01",
        functions: &[
            "strict::OpenHypergraph::compose (Arrow::compose, >>)",
            "strict::OpenHypergraph::{source,target,tensor}",
            "strict::Hypergraph::{coproduct,coequalize_vertices}",
            "FiniteFunction::{inject0,inject1,coequalizer,compose,new}",
            "finite_function::coequalizer_universal",
            "IndexedCoproduct::{tensor,map_values,from_semifinite}",
            "semifinite::compose_semifinite",
            "lax::category::{Arrow::compose, >>, lax_compose} (lax tier)",
        ],
        bounds_quick: "per operand W<=2 nodes, X<=1 hyperedges, S,T<=2 incidences, interfaces <=2; corner pairs mandatory, the rest of the box seed-sampled under the time budget",
        bounds_thorough: "per operand W<=3, X<=2, S,T<=3, interfaces <=3, total nodes <=6; whole box under the time budget",
        jobs,
        budget_s: (150, 1500),
    }
}

/// plain model of a result, or None on the paths where the raw data is not even well-formed
pub fn plain_checked(r: &RawOH) -> Option<Plain> {
    if crate::explore::branch(wf_oh(r)) {
        Some(plain_of(r))
    } else {
        None
    }
}

pub fn oracle(inp: &PV, out: &PV) -> T {
    let (pf, pg) = (plain_of(inp.at(0).oh()), plain_of(inp.at(1).oh()));
    let types_eq = types_equal(&pf, &pf.t, &pg, &pg.s);
    match out {
        PV::None => tm::not(types_eq),
        PV::Some(b) => match &**b {
            PV::OH(_) if pf.t.len() != pg.s.len() => tm::FALSE,
            PV::OH(r) => match plain_checked(r) {
                None => tm::FALSE,
                Some(pr) => {
                    let reference = pushout(&pf, &pg);
                    tm::and(vec![types_eq, iso(&reference, &pr)])
                }
            },
            _ => tm::FALSE,
        },
        // composition must report failure, never panic, on well-formed operands
        _ => tm::FALSE,
    }
}

pub fn job(sf: Shape, sg: Shape, cfg: crate::explore::Cfg, budget: Duration, mandatory: bool) -> Job {
    let c = crate::case!(
        format!("compose f={} g={}", sf.show(), sg.show()),
        move || PV::List(vec![PV::OH(gen_oh(&sf, "f")), PV::OH(gen_oh(&sg, "g"))]),
        c01_compose,
        oracle,
        3
    );
    case_job(c, cfg, budget, mandatory)
}

/// upper bound on the number of seeded-sample jobs generated for one run
pub const MAX_JOBS: usize = 150_000;

pub fn corner_pairs() -> Vec<(Shape, Shape)> {
    let s = Shape::new;
    vec![
        // empty diagrams and empty boundaries
        (s(0, 0, 0, 0, 0, 0), s(0, 0, 0, 0, 0, 0)),
        (s(1, 0, 0, 0, 1, 0), s(1, 0, 0, 0, 0, 1)),
        (s(0, 1, 0, 0, 0, 0), s(0, 1, 0, 0, 0, 0)),
        // zero-arity hyperedges next to a glued boundary
        (s(1, 1, 0, 0, 1, 1), s(1, 1, 0, 0, 1, 1)),
        // boundary nodes repeated within / shared between interfaces, chains collapsing nodes
        (s(2, 0, 0, 0, 1, 2), s(2, 0, 0, 0, 2, 1)),
        (s(2, 0, 0, 0, 2, 2), s(2, 0, 0, 0, 2, 2)),
        (s(2, 1, 2, 2, 1, 2), s(2, 1, 2, 2, 2, 1)),
        (s(2, 1, 1, 1, 2, 2), s(1, 1, 2, 1, 2, 2)),
        (s(1, 1, 2, 2, 2, 2), s(2, 1, 1, 2, 2, 0)),
        (s(2, 1, 2, 1, 0, 2), s(2, 1, 1, 2, 2, 2)),
        (s(2, 1, 0, 2, 1, 1), s(2, 1, 2, 0, 1, 1)),
        // boundary lengths differ: must report failure
        (s(1, 1, 1, 0, 1, 0), s(1, 0, 0, 0, 1, 1)),
        (s(0, 0, 0, 0, 0, 0), s(2, 1, 2, 1, 2, 1)),
        (s(2, 1, 1, 2, 1, 2), s(1, 1, 1, 1, 1, 1)),
    ]
}

pub fn jobs(tier: Tier, seed: u64) -> Vec<Job> {
    let cfg = base_cfg(tier);
    let mut out = super::c07::conformance_jobs(tier, &[2, 3, 5]);
    // the lax representation composes by the same gluing (checked `compose`, `>>`, unchecked `lax_compose`):
    // defined iff the types (resp. arities) match, and the result glues the strict meanings (lax tier)
    out.extend(super::lax::c10_jobs(tier, seed).into_iter().filter(|j| j.name.starts_with("lax compose")).take(if tier == Tier::Quick { 400 } else { 4000 }));
    let mut seen = std::collections::HashSet::new();
    let per_job = Duration::from_secs(match tier {
        Tier::Quick => 60,
        Tier::Thorough => 600,
    });
    for (f, g) in corner_pairs() {
        seen.insert((f, g));
        out.push(job(f, g, cfg.clone(), per_job, tier == Tier::Quick));
    }
    let (wm, xm, im, bm) = match tier {
        Tier::Quick => (2, 1, 2, 2),
        Tier::Thorough => (3, 2, 3, 3),
    };
    let all = shapes(wm, xm, im, im, bm, bm);
    let mut pairs = vec![];
    for f in &all {
        for g in &all {
            if f.w + g.w <= 6 && !seen.contains(&(*f, *g)) {
                pairs.push((*f, *g));
            }
        }
    }
    Rng::new(seed).shuffle(&mut pairs);
    // the thorough box has millions of pairs: a seeded sample that a budget of this size can get through
    pairs.truncate(MAX_JOBS);
    for (f, g) in pairs {
        out.push(job(f, g, cfg.clone(), per_job, false));
    }
    out
}
