//! Engine S: solver-based checking of open-hypergraphs through a symbolic `ArrayKind` backend.
#![allow(clippy::all)]
pub mod conv;
pub mod explore;
pub mod json;
pub mod kind;
pub mod plain;
pub mod runner;
pub mod solver;
pub mod term;

/// the real generic library code instantiated at the symbolic backend
pub mod sym {
    pub type K = crate::kind::SymKind;
    pub type L = crate::kind::Lab;
    pub type V = crate::kind::Val;
    include!("ops.rs");
}
/// the same code instantiated at the library's own Vec backend (native replays)
pub mod nat {
    pub type K = open_hypergraphs::array::vec::VecKind;
    pub type L = crate::conv::NLab;
    pub type V = crate::conv::NVal;
    include!("ops.rs");
}

pub mod checks;
