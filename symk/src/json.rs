//! Minimal JSON writer (no external crates).
pub fn quote(s: &str) -> String {
    let mut o = String::with_capacity(s.len() + 2);
    o.push('"');
    for ch in s.chars() {
        match ch {
            '"' => o.push_str("\\\""),
            '\\' => o.push_str("\\\\"),
            '\n' => o.push_str("\\n"),
            '\r' => o.push_str("\\r"),
            '\t' => o.push_str("\\t"),
            c if (c as u32) < 0x20 => o.push_str(&format!("\\u{:04x}", c as u32)),
            c => o.push(c),
        }
    }
    o.push('"');
    o
}

#[derive(Clone, Debug)]
pub enum J {
    Null,
    B(bool),
    I(i64),
    F(f64),
    S(String),
    /// pre-rendered JSON text
    Raw(String),
    A(Vec<J>),
    O(Vec<(String, J)>),
}
impl J {
    pub fn s(x: &str) -> J {
        J::S(x.to_string())
    }
    pub fn obj(kv: Vec<(&str, J)>) -> J {
        J::O(kv.into_iter().map(|(k, v)| (k.to_string(), v)).collect())
    }
    pub fn render(&self) -> String {
        match self {
            J::Null => "null".into(),
            J::B(b) => b.to_string(),
            J::I(i) => i.to_string(),
            J::F(f) => {
                if f.is_finite() {
                    format!("{:.3}", f)
                } else {
                    "0".into()
                }
            }
            J::S(s) => quote(s),
            J::Raw(s) => s.clone(),
            J::A(xs) => format!("[{}]", xs.iter().map(|x| x.render()).collect::<Vec<_>>().join(",")),
            J::O(kv) => format!("{{{}}}", kv.iter().map(|(k, v)| format!("{}:{}", quote(k), v.render())).collect::<Vec<_>>().join(",")),
        }
    }
}
